# -*- coding: utf-8 -*-
"""C19 - active tags exclude exactly by the documented per-category logic.

Engine E4: every tag multiset up to a size bound over a 14-tag alphabet, crossed
with every assignment of current values, every way of supplying a current value
(plain string, value objects with eq/ge/le/ne/contains, boolean, lazy callables),
every provider kind (dict, ActiveTagValueProvider, CompositeActiveTagValueProvider
queried repeatedly) and matcher variants (custom prefixes / separators,
CompositeTagMatcher), against the statement's formula evaluated by an independent
tag parser.  Plus boolean value objects over a boolean tag alphabet and the two
shipped providers behave.active_tag.python / .python_feature.
"""
import itertools
import operator
import sys

PROPERTY = "C19"
LEVEL = "exploration"
RULE = ("Tag multisets of size <= 3 (quick) / <= 4 (thorough; size 5 with plain string values only) over the 14-tag "
        "alphabet {use/not/only/active/not_active tags of categories a, b, dotted c.d, unknown zz, a tag without separator, two ordinary tags} (each multiset in "
        "ascending and descending order) x 36 current-value assignments (a in 1,2,3,absent; b in x,y,absent; c.d in "
        "1,2,absent) x 10 ways of supplying the value (str, ValueObject, lazy callable, ValueObject over a callable, "
        "NumberValueObject eq/ge/le, ValueObject ne, ValueObject contains, BoolValueObject with malformed tag values) x "
        "providers {dict, ActiveTagValueProvider, CompositeActiveTagValueProvider over two providers queried three "
        "times with a probe query in between}; for plain strings additionally custom prefix lists, custom separators "
        "':' and '==', CompositeTagMatcher of 0/1/2 members and with a PredicateTagMatcher. Boolean sweep: multisets "
        "<= 3 (<= 4) over 10 boolean tags x current True/False/absent x eager/lazy x 3 providers. Known category with current value None / '' / 0 / False (category a; b "
        "present or absent): multisets <= 3 (<= 4) over a 14-tag alphabet (incl. empty tag value and the tag values "
        "None, 0, False) x value supplied raw / by a callable / as ValueObject / ValueObject over a callable / "
        "NumberValueObject(0) x providers {dict, ActiveTagValueProvider, Composite with the category in the first "
        "resp. the last member} each queried twice, plus a CompositeTagMatcher; such a category is known: its "
        "positives do not match (excluded), its negatives do not match. Provider histories: every sequence of <= 2 (<= 3) earlier operations "
        "over {get(c), get(c, None), get(c, '1'), c in p, p[c], an earlier matcher query on c, late registration of a "
        "member provider / value that knows c} for c in {known, unknown category} and {items(), keys(), values(), "
        "print_active_tags(p, categories), print_active_tags(p)} applied to dict / ActiveTagValueProvider / two "
        "CompositeActiveTagValueProvider line-ups before each of 8 final tag lists x 4 orders of the two final questions (fresh provider each); "
        "oracle = the formula on the CURRENT provider contents (a category is known iff some member knows it now). "
        "Query order: should_run_with alone / should_exclude_with alone / run "
        "then exclude / exclude then run, each on a fresh provider + matcher, must all follow the formula: all four in "
        "the history, falsy, boolean sweeps and on 10 providers that look empty (None, {}, empty "
        "ActiveTagValueProvider, composites with no / only empty members, composites knowing a category in the last / "
        "only member, nested composite) x all tag multisets; run-first orders in the main sweep (value kinds str, lazy, "
        "num_ge, first tag order) and for the shipped providers. Values held in the composite provider itself: "
        "{provider[c] = v, setup_active_tag_values(provider, {c: v}), each on a fresh provider and after a first matcher "
        "query; member changed after the first query} x v in {BoolValueObject(False), BoolValueObject(True), '', 0, None, "
        "False, 'x'} x member {lacks c, holds another value, holds the same value} x 2 composite line-ups x 4 query "
        "orders x {with, without} provider.get reads before and after x tag multisets <= 2 (<= 3) over 8 tags of c: the "
        "verdict follows the formula with the value put into the provider (the override wins; unknown when "
        "setup_active_tag_values finds no such category); provider.get is idempotent and returns the override; where a "
        "member changes after discovery either the kept or the re-read value is accepted, but the choice must not depend "
        "on the value. Time-varying sources: ONE matcher + provider asked 2-3 times while the source changes in between "
        "(all adjacent-distinct value sequences of length 2 and 3 over {'1','2',None,''} resp. {0,1,2} resp. {True,False}) "
        "for the holders {callable, ValueObject(callable), NumberValueObject(callable, ge), BoolValueObject(callable)} in "
        "{dict, ActiveTagValueProvider, composite over a dict member, composite over an ActiveTagValueProvider member} "
        "and {entry replaced by a plain value / by a ValueObject} in {dict, ActiveTagValueProvider, composite member, "
        "composite's own entry} x 2 query orders x tag multisets <= 2 (<= 3) over 7 tags: every answer follows the "
        "formula with the source's value at that moment; only where the composite provider keeps a value discovered in a "
        "member (member entry replaced; callable evaluated by an ActiveTagValueProvider member) the first discovered "
        "value is accepted as well. Construction histories: every sequence of 1-3 matcher constructions over 9 variants "
        "(base class with defaults; subclasses with class-level value_separator ':' / '-', tag_schema '.if_', "
        "tag_prefixes [use, not], both; base class with its value_separator re-assigned to ':' for one construction; "
        "explicit constructor arguments value_separator=':' / tag_prefixes=[use, not]) inside a private fresh copy of "
        "behave.tag_matcher; each matcher answers 55 tag lists (37 tags written with the separators = : - and the "
        "markers .with_ / .if_) when built and again after all later constructions: verdicts follow the formula with "
        "the variant's own resolved prefixes/separator/schema and tag_pattern equals that of the variant constructed "
        "alone. Composite matchers in one process: every sequence of 1-2 (and 3; quick: 3 of the 6 member sets) "
        "CompositeTagMatcher constructions over {members passed as a list, argument omitted, None, empty list} x member "
        "sets {none, a=1, a=2, b=x, (a=2, b=y), a predicate matcher}, the members of the last three build kinds appended "
        "through the public .tag_matchers list either right after each construction or after all were built; each "
        "composite answers 11 tag lists when filled and at the end: it excludes iff one of its OWN members excludes, "
        "len(.tag_matchers) is its own member count, an empty composite never excludes. Shipped providers: "
        "multisets <= 2 (<= 3) over ~100 tags (every category of behave.active_tag.python and .python_feature x "
        "prefixes x matching/non-matching/malformed values, versions below/equal/above the running interpreter) x "
        "{python dict, python_feature dict, ActiveTagValueProvider(python), Composite(python, python_feature)}, expected "
        "result from sys.version_info / sys.platform / feature probing. Oracle: excluded iff some category known to "
        "the provider has positive tags none of which matches or a negative tag which matches; should_run_with == not "
        "should_exclude_with. A case is non-trivial when it carries at least one active tag of a known category; "
        "distinct = distinct (multiset, assignment).")
ASSUMPTIONS = [
    "a category is 'known to the value provider' when provider.get(category, <sentinel>) does not return the sentinel "
    "- in particular a category whose current value is None, '', 0 or False is known",
    "a current value that is not a string and is compared with the default operator equals no tag text (0 != '0')",
    "composite providers are built from providers with disjoint categories (precedence among providers that share a "
    "category is not stated and not checked)",
    "in the multiset / falsy / history sweeps lazy callables return the same value on every call; changing sources are "
    "the subject of the time-varying sweep",
    "boolean tag values are the documented lower-case words yes/no/true/false/on/off; anything else is malformed",
    "separators are plain characters without regular-expression meaning",
]

# ---------------------------------------------------------------- alphabet
ALPHABET = ("use.with_a=1", "use.with_a=2", "not.with_a=1", "not.with_a=2", "only.with_a=1", "active.with_a=1",
            "not_active.with_a=2", "use.with_b=x", "not.with_b=x", "use.with_c.d=1", "use.with_zz=1", "use.with_a",
            "foo", "not.foo")
BOOL_ALPHABET = ("use.with_f=yes", "use.with_f=no", "not.with_f=yes", "not.with_f=no", "use.with_f=maybe",
                 "not.with_f=maybe", "use.with_f=true", "not.with_f=off", "only.with_f=on", "use.with_f=")
ASSIGNMENTS = [(a, b, cd) for a in ("1", "2", "3", None) for b in ("x", "y", None) for cd in ("1", "2", None)]
KINDS = ("str", "vo", "lazy", "vo_lazy", "num_eq", "num_ge", "num_le", "ne", "contains", "bool_malformed")
ORDER_KINDS = ("str", "lazy", "num_ge")       # value kinds for which the main sweep also varies the query order
DEFAULT_PREFIXES = ("use", "not", "active", "not_active", "only")
NEGATIVE = ("not", "not_active")
PROBE = ("use.with_a=1", "not.with_b=x", "use.with_zz=1", "use.with_c.d=2", "foo")
CONTAINS = {"1": ("1", "2"), "2": ("2",), "3": ("3", "1"), "x": ("x", "y"), "y": ("y",)}
WORD = set("abcdefghijklmnopqrstuvwxyzABCDEFGHIJKLMNOPQRSTUVWXYZ0123456789_")


# ---------------------------------------------------------------- reference model (from the statement)
def parse_active(tag, prefixes, sep, marker=".with_"):
    """PREFIX.with_CATEGORY<sep>VALUE  with CATEGORY = dot-separated words; None if not an active tag
    (marker: the literal between prefix and category, for matcher classes with a schema of their own)"""
    head, mid, rest = tag.partition(marker)
    if not mid or head not in prefixes:
        return None
    idx = rest.find(sep)
    if idx < 0:
        return None
    category, value = rest[:idx], rest[idx + len(sep):]
    parts = category.split(".")
    if not all(p and set(p) <= WORD for p in parts):
        return None
    return head, category, value


def ref_exclude(tags, known, prefixes=DEFAULT_PREFIXES, sep="=", marker=".with_"):
    """known: category -> predicate(tag_value); the statement's formula verbatim"""
    pos, neg = {}, {}
    for t in tags:
        p = parse_active(t, prefixes, sep, marker)
        if p is None or p[1] not in known:
            continue
        (neg if p[0] in NEGATIVE else pos).setdefault(p[1], []).append(bool(known[p[1]](p[2])))
    for c in set(pos) | set(neg):
        if (pos.get(c) and not any(pos[c])) or any(neg.get(c, ())):
            return True
    return False


def is_int_text(s):
    return s.isdigit()


def ref_predicate(kind, cur):
    if kind in ("str", "vo", "lazy", "vo_lazy"):
        return lambda v: v == cur
    if kind in ("num_eq", "num_ge", "num_le"):
        op = {"num_eq": operator.eq, "num_ge": operator.ge, "num_le": operator.le}[kind]
        n = int(cur) if cur.isdigit() else 7
        return lambda v: is_int_text(v) and op(n, int(v))
    if kind == "ne":
        return lambda v: v != cur
    if kind == "contains":
        return lambda v: v in CONTAINS[cur]
    if kind == "bool_malformed":
        return lambda v: False          # no tag value of the alphabet is a boolean word
    raise ValueError(kind)


# ---------------------------------------------------------------- worker side
def init_worker():
    global TM
    import logging
    import behave.tag_matcher as TM
    logging.getLogger("behave.active_tags").disabled = True     # conversion errors are logged; keep stderr clean


def real_value(kind, cur):
    if kind == "str":
        return cur
    if kind == "vo":
        return TM.ValueObject(cur)
    if kind == "lazy":
        return lambda: cur
    if kind == "vo_lazy":
        return TM.ValueObject(lambda: cur)
    if kind in ("num_eq", "num_ge", "num_le"):
        op = {"num_eq": operator.eq, "num_ge": operator.ge, "num_le": operator.le}[kind]
        return TM.NumberValueObject(int(cur) if cur.isdigit() else 7, op)
    if kind == "ne":
        return TM.ValueObject(cur, operator.ne)
    if kind == "contains":
        return TM.ValueObject(CONTAINS[cur], operator.contains)
    if kind == "bool_malformed":
        return TM.BoolValueObject(True)
    raise ValueError(kind)


def make_provider(pkind, vals):
    """vals: ordered list of (category, real value)"""
    if pkind == "dict":
        return dict(vals)
    if pkind == "atvp":
        return TM.ActiveTagValueProvider(dict(vals))
    if pkind == "comp":
        first = dict((c, v) for c, v in vals if c == "a")
        second = dict((c, v) for c, v in vals if c not in first)
        return TM.CompositeActiveTagValueProvider([first, TM.ActiveTagValueProvider(second)])
    raise ValueError(pkind)


def family(pkind):
    return "dict" if pkind == "dict" else "ActiveTagValueProvider"


def query(matcher, tags):
    """-> (exclude, run) or ('EXC', name)"""
    try:
        return bool(matcher.should_exclude_with(list(tags))), bool(matcher.should_run_with(list(tags)))
    except Exception as ex:
        return "EXC", type(ex).__name__


# ---- query order -----------------------------------------------------------------------------------------
# The verdict must not depend on WHICH of the two questions is asked first on a fresh matcher/provider: each order
# below is evaluated on its own fresh provider + matcher.  ("exclude" alone is also what every sweep's primary
# query starts with: the primary query is "exclude>run".)
ORDERS = ("run", "exclude", "run>exclude", "exclude>run")
CLASSNAME = {"dict": "dict", "atvp": "ActiveTagValueProvider", "comp": "CompositeActiveTagValueProvider",
             "comp_rev": "CompositeActiveTagValueProvider", "comp_dicts": "CompositeActiveTagValueProvider"}


def query_order(matcher, tags, order):
    """-> (exclude or None, run or None) in the given call order, or ('EXC', name)"""
    ex = rn = None
    try:
        for call in order.split(">"):
            if call == "run":
                rn = bool(matcher.should_run_with(list(tags)))
            else:
                ex = bool(matcher.should_exclude_with(list(tags)))
    except Exception as e:
        return "EXC", type(e).__name__
    return ex, rn


def order_faults(got, want, order):
    """-> list of (call, position) that answered wrongly"""
    if got[0] == "EXC":
        return [("raises:%s" % got[1], "any")]
    calls = order.split(">")
    out = []
    if got[0] is not None and got[0] != want:
        out.append(("should_exclude_with", "first" if calls[0] == "exclude" else "second"))
    if got[1] is not None and got[1] != (not want):
        out.append(("should_run_with", "first" if calls[0] == "run" else "second"))
    return out


def judge_orders(v, obs, make, tags, want, what, provider, orders=("run", "run>exclude"), extra=None):
    """every order on a fresh matcher; -> number of evaluations"""
    for order in orders:
        got = query_order(make(), tags, order)
        obs.append(("order", order, got))
        for call, position in order_faults(got, want, order):
            d = {"subcheck": "query-order", "clause": "formula", "call": call, "position": position,
                 "provider": provider,
                 "direction": "runs-but-must-be-excluded" if want else "excluded-but-must-run"}
            d.update(extra or {})
            v.append((d, "%s: fresh provider and matcher, calls %s on tags %r -> (exclude, run) = %r, the documented "
                         "logic says exclude=%s" % (what, order, list(tags), got, want)))
    return len(orders)


def model_provider(known):
    """the simplest provider that realises the reference predicates: the verdict of the matcher core on it
    tells a defect of the formula apart from a defect of a value object / provider class"""
    return dict((c, TM.ValueObject(None, (lambda _cur, tv, p=p: p(tv)))) for c, p in known.items())


def signature(tags, known):
    """class of a (minimal) tag list: polarity and reference match of every tag"""
    out = []
    for t in tags:
        p = parse_active(t, DEFAULT_PREFIXES, "=")
        if p is None:
            out.append("other")
        elif p[1] not in known:
            out.append("%s:unknown-category" % ("neg" if p[0] in NEGATIVE else "pos"))
        else:
            out.append("%s:%s" % ("neg" if p[0] in NEGATIVE else "pos", "match" if known[p[1]](p[2]) else "nomatch"))
    return "+".join(sorted(out)) or "empty"


def diagnose(tags, known, make, pkind, kind_label, memo):
    """minimal trigger class of a wrong verdict (runs only when a violation was found):
    the smallest sub-list that is still decided wrongly, its signature, and whether the matcher core
    (model provider), the provider class (same values in a plain dict are fine) or the value kind is at fault.
    make(pkind) -> fresh matcher over the same current values."""
    key = (tuple(sorted(tags)), pkind, kind_label)
    if key in memo:
        return memo[key]
    tags = list(tags)
    sub = tags
    for k in range(1, len(tags)):
        hit = None
        for idx in itertools.combinations(range(len(tags)), k):
            cand = [tags[i] for i in idx]
            if query(make(pkind), cand)[0] != ref_exclude(cand, known):
                hit = cand
                break
        if hit is not None:
            sub = hit
            break
    d = {"trigger": signature(sub, known)}
    want = ref_exclude(sub, known)
    if query(TM.ActiveTagMatcher(model_provider(known)), sub)[0] != want:
        pass                                        # the core logic is wrong whatever the provider
    elif pkind != "dict" and query(make("dict"), sub)[0] == want:
        d["provider"] = family(pkind)               # same values in a plain dict are decided correctly
    else:
        d["kind"] = kind_label
    memo[key] = d
    return d


def judge(v, got, want, what, tags, diag=None, extra=None):
    """compare one (exclude, run) observation with the wanted exclusion; append violations.
    diag() -> descriptor fields naming the minimal trigger class (called only on a wrong verdict)"""
    if got[0] == "EXC":
        d = {"subcheck": "exclude", "clause": "raises", "exc": got[1]}
        d.update(extra or {})
        v.append((d, "%s: tags %r raised %s" % (what, list(tags), got[1])))
        return False
    ok = True
    if got[0] != want:
        d = {"subcheck": "exclude", "clause": "formula",
             "direction": "excluded-but-must-run" if got[0] else "runs-but-must-be-excluded"}
        d.update(extra or {})
        if diag:
            d.update(diag())
        v.append((d, "%s: tags %r -> should_exclude_with says %s, the documented logic says %s"
                  % (what, list(tags), got[0], want)))
        ok = False
    if got[1] != (not got[0]):
        d = {"subcheck": "run-vs-exclude", "clause": "should_run_with-is-not-negation"}
        d.update(extra or {})
        v.append((d, "%s: tags %r -> should_exclude_with %s but should_run_with %s" % (what, list(tags), got[0], got[1])))
        ok = False
    return ok


def check_multiset(case):
    """one (tag multiset, assignment): kinds x providers x orders, matcher variants"""
    idxs, (a, b, cd) = case[:2]
    kinds = KINDS if (len(case) < 3 or case[2]) else ("str",)
    tags_up = tuple(ALPHABET[i] for i in idxs)
    orders = [tags_up] if len(set(tags_up)) <= 1 else [tags_up, tuple(reversed(tags_up))]
    current = [(c, x) for c, x in (("a", a), ("b", b), ("c.d", cd)) if x is not None]
    v, obs, n = [], [], 0
    memo = {}
    base_failed = False

    for kind in kinds:
        known = dict((c, ref_predicate(kind, x)) for c, x in current)

        def make(pkind, kind=kind):
            return TM.ActiveTagMatcher(make_provider(pkind, [(c, real_value(kind, x)) for c, x in current]))
        for pkind in ("dict", "atvp", "comp"):
            for oi, tags in enumerate(orders):
                want = ref_exclude(tags, known)
                m = make(pkind)
                got = query(m, tags)
                n += 1
                obs.append((kind, pkind, oi, got))
                what = "value kind %s, provider %s, current values %r" % (kind, pkind, dict(current))
                ok = judge(v, got, want, what, tags,
                           lambda tags=tags, known=known, make=make, pkind=pkind, kind=kind:
                           diagnose(tags, known, make, pkind, kind, memo),
                           extra={"kind": kind, "provider": family(pkind)} if got[0] == "EXC" else None)
                if not ok and (kind, pkind) == ("str", "dict"):
                    base_failed = True
                if ok and oi == 0 and kind in ORDER_KINDS:
                    n += judge_orders(v, obs, lambda pkind=pkind, make=make: make(pkind), tags, want, what,
                                      CLASSNAME[pkind])
                if pkind == "comp" and got[0] != "EXC":
                    # the composite provider caches discovered categories: probe, then ask again
                    gp = query(m, PROBE)
                    g2 = query(m, tags)
                    n += 2
                    obs.append((kind, pkind, oi, "requery", gp, g2))
                    wp = ref_exclude(PROBE, known)
                    stale = None
                    if got[0] == want and g2 != got:
                        stale = "second query of the same tags gave %r" % (g2,)
                    elif gp[0] != wp:
                        # wrong on the probe: a cache effect only if a fresh matcher answers the probe differently
                        # (otherwise it is a defect of single queries, which the enumeration of tag lists reports)
                        fresh = query(make(pkind), PROBE)
                        if fresh != gp:
                            stale = "probe gave %r, a fresh matcher gives %r" % (gp, fresh)
                    if stale:
                        v.append(({"subcheck": "exclude", "clause": "changes-on-requery",
                                   "provider": "CompositeActiveTagValueProvider"},
                                  "%s: first query of %r gave %r; after probe %r: %s (documented logic: exclude=%s)"
                                  % (what, list(tags), got, list(PROBE), stale, wp)))

    # ---- matcher variants (plain strings, dict provider)
    known = dict((c, ref_predicate("str", x)) for c, x in current)
    vals = dict(current)
    tags = tags_up
    variants = []
    for pref in (["use", "not"], ["only", "not_active"], ["not", "use", "only", "active", "not_active"]):
        variants.append(("prefixes=%s" % ",".join(pref),
                         lambda pref=pref: TM.ActiveTagMatcher(dict(vals), tag_prefixes=list(pref)),
                         tags, ref_exclude(tags, known, tuple(pref), "=")))
    for sep in (":", "=="):
        t2 = tuple(t.replace("=", sep) for t in tags)
        variants.append(("separator=%s" % sep, lambda sep=sep: TM.ActiveTagMatcher(dict(vals), value_separator=sep),
                         t2, ref_exclude(t2, known, DEFAULT_PREFIXES, sep)))
        variants.append(("separator=%s,tags-with-equals" % sep,
                         lambda sep=sep: TM.ActiveTagMatcher(dict(vals), value_separator=sep),
                         tags, ref_exclude(tags, known, DEFAULT_PREFIXES, sep)))
    only_a = dict((c, x) for c, x in current if c == "a")
    rest = dict((c, x) for c, x in current if c != "a")
    k_a = dict((c, p) for c, p in known.items() if c == "a")
    k_rest = dict((c, p) for c, p in known.items() if c != "a")
    variants.append(("composite[]", lambda: TM.CompositeTagMatcher([]), tags, False))
    variants.append(("composite[m]", lambda: TM.CompositeTagMatcher([TM.ActiveTagMatcher(dict(vals))]),
                     tags, ref_exclude(tags, known)))
    variants.append(("composite[m_a,m_rest]",
                     lambda: TM.CompositeTagMatcher([TM.ActiveTagMatcher(only_a), TM.ActiveTagMatcher(rest)]),
                     tags, ref_exclude(tags, k_a) or ref_exclude(tags, k_rest)))
    variants.append(("composite[m_rest,m_a]",
                     lambda: TM.CompositeTagMatcher([TM.ActiveTagMatcher(rest), TM.ActiveTagMatcher(only_a)]),
                     tags, ref_exclude(tags, k_a) or ref_exclude(tags, k_rest)))
    variants.append(("composite[predicate,m]",
                     lambda: TM.CompositeTagMatcher([TM.PredicateTagMatcher(lambda ts: "foo" in ts),
                                                     TM.ActiveTagMatcher(dict(vals))]),
                     tags, ("foo" in tags) or ref_exclude(tags, known)))
    for vname, mkv, vtags, want in variants:
        got = query(mkv(), vtags)
        n += 1
        obs.append((vname, got))
        if base_failed and got[0] != "EXC" and got[0] != want:
            continue            # the default matcher already decides this very case wrongly: reported above
        vclass = vname.split("=")[0] if "=" in vname else "composite"
        judge(v, got, want, "matcher variant %s, current values %r" % (vname, vals), vtags, extra={"variant": vclass})

    nt = None
    if any((parse_active(t, DEFAULT_PREFIXES, "=") or (0, None))[1] in vals for t in tags_up):
        nt = ("main", tuple(case[:2]))
    out = obs[0][3] if obs else None
    return {"v": v, "nt": nt, "out": ("main", out, len(tags_up)), "dg": obs, "n": n}


# ---- boolean value objects -----------------------------------------------------------------------
TRUE_WORDS, FALSE_WORDS = ("yes", "true", "on"), ("no", "false", "off")


def ref_bool_predicate(cur):
    def p(v):
        if v in TRUE_WORDS:
            return cur is True
        if v in FALSE_WORDS:
            return cur is False
        return False
    return p


def check_bool(case):
    idxs, cur, lazy = case
    tags_up = tuple(BOOL_ALPHABET[i] for i in idxs)
    orders = [tags_up] if len(set(tags_up)) <= 1 else [tags_up, tuple(reversed(tags_up))]
    known = {} if cur is None else {"f": ref_bool_predicate(cur)}
    v, obs, n = [], [], 0
    memo = {}

    def make(pkind):
        vals = []
        if cur is not None:
            vals = [("f", TM.BoolValueObject((lambda: cur) if lazy else cur))]
        return TM.ActiveTagMatcher(make_provider(pkind, vals))
    for pkind in ("dict", "atvp", "comp"):
        for oi, tags in enumerate(orders):
            got = query(make(pkind), tags)
            n += 1
            obs.append((pkind, oi, got))
            if oi == 0 and got == (ref_exclude(tags, known), not ref_exclude(tags, known)):
                n += judge_orders(v, obs, lambda pkind=pkind: make(pkind), tags, ref_exclude(tags, known),
                                  "boolean category f, provider %s" % pkind, CLASSNAME[pkind], ORDERS[:3])
            judge(v, got, ref_exclude(tags, known), "category f %s, provider %s"
                  % ("absent" if cur is None else "= BoolValueObject(%s%r)" % ("lazy " if lazy else "", cur), pkind),
                  tags, lambda tags=tags, pkind=pkind: diagnose(tags, known, make, pkind, "bool", memo),
                  extra={"kind": "bool", "provider": family(pkind)} if got[0] == "EXC" else None)
    nt = ("bool", case) if (cur is not None and tags_up) else None
    return {"v": v, "nt": nt, "out": ("bool", obs[0][2]), "dg": obs, "n": n}


# ---- known categories whose current value is None / falsy ------------------------------------------
# A category is known as soon as the provider has an entry for it - also when the entry's value is None
# (os.environ.get("X") with X unset), "", 0 or False.  Per the statement such a category has positive tags that do
# not match (-> excluded) and negative tags that do not match (-> not excluded); it is NOT an unknown category.
FALSY_ALPHABET = ("use.with_a=1", "not.with_a=1", "only.with_a=1", "active.with_a=1", "not_active.with_a=1",
                  "use.with_a=", "not.with_a=", "use.with_a=None", "use.with_a=0", "not.with_a=False",
                  "use.with_b=x", "not.with_b=x", "use.with_zz=1", "foo")
FALSY_VALUES = (("None", None), ("empty-string", ""), ("zero", 0), ("False", False))
FALSY_SUPPLY = ("raw", "lazy", "vo", "vo_lazy", "num")
FALSY_PROVIDERS = ("dict", "atvp", "comp", "comp_rev")


def falsy_real(supply, cur):
    if supply == "raw":
        return cur
    if supply == "lazy":
        return lambda: cur
    if supply == "vo":
        return TM.ValueObject(cur)
    if supply == "vo_lazy":
        return TM.ValueObject(lambda: cur)
    if supply == "num":
        return TM.NumberValueObject(cur)
    raise ValueError(supply)


def falsy_predicate(supply, cur):
    if supply == "num":
        return lambda v: is_int_text(v) and cur == int(v)
    return lambda v: v == cur           # plain equality with the current value: None/0/False equal no tag text


def falsy_provider(pkind, vals):
    if pkind == "comp_rev":             # the None-valued category lives in the LAST provider of the composite
        first = dict((c, v) for c, v in vals if c != "a")
        second = dict((c, v) for c, v in vals if c == "a")
        return TM.CompositeActiveTagValueProvider([TM.ActiveTagValueProvider(first), second])
    return make_provider(pkind, vals)


def check_falsy(case):
    """one (tag multiset, falsy current value of category a, b present?)"""
    idxs, fi, with_b = case
    fname, cur = FALSY_VALUES[fi]
    tags_up = tuple(FALSY_ALPHABET[i] for i in idxs)
    orders = [tags_up] if len(set(tags_up)) <= 1 else [tags_up, tuple(reversed(tags_up))]
    v, obs, n = [], [], 0
    memo = {}
    for supply in FALSY_SUPPLY:
        if supply == "num" and fname != "zero":
            continue
        known = {"a": falsy_predicate(supply, cur)}
        if with_b:
            known["b"] = lambda tv: tv == "x"

        def vals(supply=supply):
            out = [("a", falsy_real(supply, cur))]
            if with_b:
                out.append(("b", "x"))
            return out

        def make(pkind, vals=vals):
            return TM.ActiveTagMatcher(falsy_provider(pkind, vals()))
        label = "current-value-%s" % fname if supply != "num" else "current-value-zero-number"
        for pkind in FALSY_PROVIDERS:
            for oi, tags in enumerate(orders):
                want = ref_exclude(tags, known)
                m = make(pkind)
                got = query(m, tags)
                g2 = query(m, tags)                 # same matcher again: composite cache holds the None
                n += 2
                obs.append((supply, pkind, oi, got, g2))
                what = "category a known with current value %r (supplied as %s), provider %s" % (cur, supply, pkind)
                judge(v, got, want, what, tags,
                      lambda tags=tags, known=known, make=make, pkind=pkind, label=label:
                      diagnose(tags, known, make, "dict" if pkind == "dict" else pkind, label, memo),
                      extra={"kind": label, "provider": family(pkind)} if got[0] == "EXC" else None)
                if oi == 0 and got == (want, not want):
                    n += judge_orders(v, obs, lambda pkind=pkind, make=make: make(pkind), tags, want, what,
                                      CLASSNAME[pkind], ORDERS[:3])
                if got[0] == want and g2 != got:
                    v.append(({"subcheck": "exclude", "clause": "changes-on-requery", "kind": label,
                               "provider": family(pkind)},
                              "%s: tags %r -> first query %r, second query of the same matcher %r" % (what, list(tags), got, g2)))
    # composite matcher with a member whose only category has the falsy value
    known_a = {"a": falsy_predicate("raw", cur)}
    known_b = {"b": (lambda tv: tv == "x")} if with_b else {}
    cm = TM.CompositeTagMatcher([TM.ActiveTagMatcher({"a": cur}), TM.ActiveTagMatcher({"b": "x"} if with_b else {})])
    got = query(cm, tags_up)
    n += 1
    obs.append(("composite-matcher", got))
    want = ref_exclude(tags_up, known_a) or ref_exclude(tags_up, known_b)
    if not v:           # otherwise the single matcher already decides this case wrongly: reported above
        judge(v, got, want, "CompositeTagMatcher[{a: %r}, {b}]" % (cur,), tags_up, extra={"variant": "composite"})
    nt = None
    if any((parse_active(t, DEFAULT_PREFIXES, "=") or (0, None))[1] == "a" for t in tags_up):
        nt = ("falsy", case)
    return {"v": v, "nt": nt, "out": ("falsy", fname, obs[0][3]), "dg": obs, "n": n}


# ---- provider histories ------------------------------------------------------------------------------
# The matcher asks the provider with its own sentinel, but user code (environment.py, summaries, logging) looks
# at the same provider object before: get() with ordinary defaults, containment, item access, items()/keys()/
# values(), print_active_tags(), an earlier matcher query; and providers / values get registered late.  The verdict
# must follow the statement's formula on the CURRENT contents of the provider whatever was asked before.
H_OPS = tuple([(name, cat) for cat in ("a", "zz") for name in ("get", "get-None", "get-1", "in", "getitem", "query", "add")]
              + [(name, None) for name in ("items", "keys", "values", "print-categories", "print-all")])
H_PROVIDERS = ("dict", "atvp", "comp", "comp_dicts")
H_FINALS = (("use.with_zz=1",), ("not.with_zz=1",), ("use.with_zz=2",), ("use.with_a=1",), ("use.with_a=2",),
            ("not.with_a=1",), ("use.with_a=1", "use.with_zz=2"), ("use.with_b=x", "not.with_zz=1"))
H_CLASSNAME = {"dict": "dict", "atvp": "ActiveTagValueProvider", "comp": "CompositeActiveTagValueProvider",
               "comp_dicts": "CompositeActiveTagValueProvider"}


def h_build(pkind):
    if pkind == "dict":
        return {"a": "1", "b": "x"}
    if pkind == "atvp":
        return TM.ActiveTagValueProvider({"a": "1", "b": (lambda: "x")})
    if pkind == "comp":
        return TM.CompositeActiveTagValueProvider([{"a": "1"}, TM.ActiveTagValueProvider({"b": (lambda: "x")})])
    if pkind == "comp_dicts":
        return TM.CompositeActiveTagValueProvider([{"a": "1"}, {"b": "x"}])
    raise ValueError(pkind)


def h_apply(provider, matcher, op, known):
    """apply one operation to the real provider; update the reference contents `known`; -> observable outcome"""
    import io
    name, cat = op
    try:
        if name == "get":
            return repr(provider.get(cat))
        if name == "get-None":
            return repr(provider.get(cat, None))
        if name == "get-1":
            return repr(provider.get(cat, "1"))
        if name == "in":
            return repr(cat in provider)
        if name == "getitem":
            return repr(provider[cat])
        if name == "query":
            return repr(query(matcher, ["use.with_%s=1" % cat, "not.with_%s=2" % cat]))
        if name == "add":
            # a provider / value that knows the category is registered late (same value as an existing entry)
            if hasattr(provider, "value_providers"):
                provider.value_providers.append({cat: "1"})
            else:
                provider[cat] = "1"
            known[cat] = lambda tv: tv == "1"
            return "added"
        if name in ("items", "keys", "values"):
            return repr(sorted(repr(x) for x in getattr(provider, name)()))
        if name in ("print-categories", "print-all"):
            saved = sys.stdout
            sys.stdout = io.StringIO()
            try:
                if name == "print-all":
                    TM.print_active_tags(provider)
                else:
                    TM.print_active_tags(provider, ["a", "zz"])
                return sys.stdout.getvalue()
            finally:
                sys.stdout = saved
    except Exception as ex:
        return "EXC:%s" % type(ex).__name__
    raise ValueError(op)


def h_run(pkind, history, final, order="exclude>run"):
    provider = h_build(pkind)
    matcher = TM.ActiveTagMatcher(provider)
    known = {"a": (lambda tv: tv == "1"), "b": (lambda tv: tv == "x")}
    trace = [h_apply(provider, matcher, H_OPS[i], known) for i in history]
    return query_order(matcher, final, order), ref_exclude(final, known), known, trace


def h_opclass(op):
    name, cat = op
    if name in ("get", "get-None", "get-1"):
        name = "lookup-with-default"
    if cat is None:
        return name
    return "%s(%s)" % (name, "known-category" if cat == "a" else "unknown-category")


def check_history(case):
    """one (provider kind, sequence of earlier operations): every final tag list x every order of the two final
    questions, fresh provider each time"""
    pkind, history = case
    v, obs, n = [], [], 0
    for final in H_FINALS:
        for order in ORDERS:
            got, want, known, trace = h_run(pkind, history, final, order)
            n += 1
            obs.append((final, order, got, trace))
            faults = order_faults(got, want, order)
            if not faults:
                continue
            # minimal trigger class: shortest sub-sequence of the history that still gives a wrong answer
            sub = history
            found = False
            for k in range(0, len(history)):
                for idx in itertools.combinations(range(len(history)), k):
                    cand = tuple(history[i] for i in idx)
                    g, w, _, _ = h_run(pkind, cand, final, order)
                    if order_faults(g, w, order):
                        sub, found = cand, True
                        break
                if found:
                    break
            g, w, _, _ = h_run(pkind, sub, final, order)
            status = []
            for t in final:         # which tag is decided wrongly: ask about each tag alone after the same history
                g1, w1, _, _ = h_run(pkind, sub, (t,), order)
                if order_faults(g1, w1, order):
                    c = parse_active(t, DEFAULT_PREFIXES, "=")[1]
                    added = any(H_OPS[i] == ("add", c) for i in sub)
                    status.append("added-later" if added else ("known" if c in ("a", "b") else "unknown"))
            call, position = order_faults(g, w, order)[0]
            d = {"subcheck": "history", "provider": H_CLASSNAME[pkind],
                 "history": ">".join(h_opclass(H_OPS[i]) for i in sub) or "none",
                 "category": "+".join(sorted(set(status))) or "combination"}
            if g[0] == "EXC":
                d["clause"] = "raises"
                d["exc"] = g[1]
            else:
                d["clause"] = "verdict-depends-on-earlier-operations" if sub else "formula"
                # the plain question (should_exclude_with asked first) is the default trigger; name anything else
                if (call, position) != ("should_exclude_with", "first"):
                    g0, w0, _, _ = h_run(pkind, sub, final, "exclude>run")
                    if not any(c == "should_exclude_with" for c, _ in order_faults(g0, w0, "exclude>run")):
                        d["call"], d["position"] = call, position
            v.append((d, "provider %s after %s, then calls %s: tags %r -> (exclude, run) = %r, the documented logic on "
                         "the current provider contents says exclude=%s (minimal history: %s)"
                      % (pkind, [H_OPS[i] for i in history], order, list(final), got, want, [H_OPS[i] for i in sub])))
    nt = ("history", case) if history else None
    return {"v": v, "nt": nt, "out": ("history", tuple(o[2] for o in obs[:6])), "dg": obs, "n": n}


# ---- values held in the composite provider's own mapping ----------------------------------------------
# A composite provider is a mapping of its own: provider[cat] = v (directly, or through
# setup_active_tag_values(provider, userdata)) puts v into it, and a value discovered in a member is kept there.
# What the provider reports (provider.get / provider[cat]) is the provider's current value; the matcher must decide
# with exactly that value - whatever the value is (falsy values and value objects with a false __bool__ included) and
# whatever the members say - and reading it must not change it.
OV_ALPHABET = ("use.with_g=yes", "use.with_g=no", "not.with_g=yes", "use.with_g=x", "not.with_g=x", "use.with_g=",
               "use.with_g=m", "not.with_g=m")
OV_VALUES = ("BoolValueObject(False)", "BoolValueObject(True)", "''", "0", "None", "False", "'x'")
OV_ROUTES = ("setitem", "setitem-after-query", "setup_active_tag_values", "setup_active_tag_values-after-query",
             "member-changed-after-query")
OV_MEMBER = ("absent", "other-value", "same-value")
OV_LINEUPS = ("single-dict-member", "second-member-ActiveTagValueProvider")
_OV_SENTINEL = object()


def ov_value(name):
    """-> (fresh real value, reference predicate, fresh 'other' value a member may hold, its predicate, falsy?)"""
    if name.startswith("BoolValueObject"):
        b = name == "BoolValueObject(True)"
        return TM.BoolValueObject(b), ref_bool_predicate(b), TM.BoolValueObject(not b), ref_bool_predicate(not b), not b
    v = {"''": "", "0": 0, "None": None, "False": False, "'x'": "x"}[name]
    return v, (lambda tv, v=v: tv == v), "m", (lambda tv: tv == "m"), not v


def ov_same(x, y):
    return x is y or (type(x) is type(y) and not isinstance(x, TM.ValueObject) and x == y)


def ov_run(route, member_state, lineup, vname, tags, order, probe):
    """-> (observation, candidates) ; candidates = acceptable 'current value' readings [(label, known-dict)]"""
    v, vpred, other, opred, _falsy = ov_value(vname)
    changed = route == "member-changed-after-query"
    if changed or member_state == "same-value":
        init = {"g": v, "k": "1"}
    elif member_state == "other-value":
        init = {"g": other, "k": "1"}
    else:
        init = {"k": "1"}
    member = dict(init) if lineup == "single-dict-member" else TM.ActiveTagValueProvider(dict(init))
    members = [member] if lineup == "single-dict-member" else [{"o": "1"}, member]
    provider = TM.CompositeActiveTagValueProvider(members)
    matcher = TM.ActiveTagMatcher(provider)
    obs = []
    try:
        if changed or route.endswith("-after-query"):
            obs.append(("first", bool(matcher.should_exclude_with(["use.with_g=x", "use.with_k=1"]))))
        if route.startswith("setitem"):
            provider["g"] = v
            cands = [("override", {"g": vpred})]
        elif route.startswith("setup_active_tag_values"):
            TM.setup_active_tag_values(provider, {"g": v, "unrelated": "1"})
            # only categories the provider already lists are updated (documented)
            cands = [("override", {"g": vpred})] if member_state != "absent" else [("unknown", {})]
        else:
            if member_state == "absent":
                del member["g"]
                cands = [("kept", {"g": vpred}), ("member-now", {})]
            elif member_state == "other-value":
                member["g"] = other
                cands = [("kept", {"g": vpred}), ("member-now", {"g": opred})]
            else:
                member["g"] = ov_value(vname)[0]
                cands = [("kept", {"g": vpred})]
        for _label, kn in cands:
            kn["k"] = lambda tv: tv == "1"
        reads = []
        if probe:
            reads.append(provider.get("g", _OV_SENTINEL))
            reads.append(provider.get("g", _OV_SENTINEL))
        got = query_order(matcher, tags, order)
        if probe:
            reads.append(provider.get("g", _OV_SENTINEL))
            try:
                reads.append(provider["g"])
            except KeyError:
                reads.append(_OV_SENTINEL)
    except Exception as ex:
        return ("EXC", type(ex).__name__, obs), [], v
    return (got, reads), cands, v


def ov_show(x):
    if x is _OV_SENTINEL:
        return "<unknown>"
    if isinstance(x, TM.ValueObject):
        return "%s(%r)" % (type(x).__name__, x.value)
    return repr(x)


def check_override(case):
    """one (route, member state, line-up, tag list): every value x query order x with/without provider reads"""
    route, member_state, lineup, idxs = case
    tags = tuple(OV_ALPHABET[i] for i in idxs)
    rclass = "member-changed" if route.startswith("member") else "override"
    v, obs, n = [], [], 0
    policy = {}
    for order in ORDERS:
        for probe in (0, 1):
            for vname in OV_VALUES:
                res, cands, val = ov_run(route, member_state, lineup, vname, tags, order, probe)
                n += 1
                falsy = "falsy" if ov_value(vname)[4] else "truthy"
                what = ("composite provider (%s), member %s, %s with value %s, calls %s%s"
                        % (lineup, member_state, route, vname, order, ", provider.get read before/after" if probe else ""))
                if res[0] == "EXC":
                    obs.append((order, probe, vname, "EXC", res[1]))
                    v.append(({"subcheck": "provider-value", "clause": "raises", "exc": res[1], "route": rclass,
                               "value": falsy}, "%s: raised %s" % (what, res[1])))
                    continue
                got, reads = res
                obs.append((order, probe, vname, got, [ov_show(r) for r in reads]))
                fits = [label for label, kn in cands if not order_faults(got, ref_exclude(tags, kn), order)]
                wants = sorted(set(ref_exclude(tags, kn) for _l, kn in cands))
                if not fits:
                    v.append(({"subcheck": "provider-value", "clause": "formula", "route": rclass, "value": falsy},
                              "%s: tags %r -> (exclude, run) = %r; with the provider's current value (%s) the documented "
                              "logic says exclude=%s" % (what, list(tags), got, " or ".join(l for l, _ in cands),
                                                           " or ".join(map(str, wants)))))
                elif len(cands) > 1 and len(wants) > 1 and len(fits) == 1:
                    policy[(order, probe, vname)] = fits[0]
                if probe:
                    # reads are idempotent, and (for an override) report the overriding value
                    if not all(ov_same(r, reads[0]) for r in reads[1:3]):
                        v.append(({"subcheck": "provider-value", "clause": "provider-get-not-idempotent", "route": rclass,
                                   "value": falsy},
                                  "%s: provider.get('g') gave %s" % (what, [ov_show(r) for r in reads])))
                    elif rclass == "override":
                        exp = val if cands[0][0] == "override" else _OV_SENTINEL
                        bad = [r for r in (reads if exp is not _OV_SENTINEL else reads[:3]) if not ov_same(r, exp)]
                        if bad:
                            v.append(({"subcheck": "provider-value", "clause": "provider-get-is-not-the-override",
                                       "route": rclass, "value": falsy},
                                      "%s: provider.get('g') x3 / provider['g'] gave %s, the value put into the provider "
                                      "is %s" % (what, [ov_show(r) for r in reads], ov_show(exp))))
    # where the statement is silent (member changed after discovery: kept or re-read) the policy must not
    # depend on the value that was discovered
    for (order, probe, vname), pol in sorted(policy.items()):
        ctrl = policy.get((order, probe, "'x'")) or policy.get((order, probe, "BoolValueObject(True)"))
        if ctrl and pol != ctrl:
            v.append(({"subcheck": "provider-value", "clause": "keep-or-reread-depends-on-value", "route": rclass,
                       "value": "falsy" if ov_value(vname)[4] else "truthy"},
                      "composite provider (%s), member %s after the first query, calls %s: discovered value %s is treated "
                      "as '%s' but a truthy discovered value as '%s' on tags %r"
                      % (lineup, member_state, order, vname, pol, ctrl, list(tags))))
    nt = ("override", case) if tags else None
    first = obs[0][3] if obs else None
    return {"v": v, "nt": nt, "out": ("override", route, first), "dg": obs, "n": n}


# ---- time-varying sources -------------------------------------------------------------------------------
# "Current value" means the value at the moment of the question: the same long-lived matcher + provider is asked
# 2-3 times while the SOURCE of the category's value changes in between (A -> B, A -> B -> A, A -> B -> C), for every
# kind of value holder.  Each answer must be the formula's answer for the value the source has at that moment.
TV_ALPHABET = ("use.with_t=1", "use.with_t=2", "not.with_t=1", "use.with_t=", "use.with_t=yes", "not.with_t=yes",
               "use.with_t=0")
TV_HOLDERS = ("callable", "ValueObject(callable)", "NumberValueObject(callable,ge)", "BoolValueObject(callable)",
              "entry-replaced", "entry-replaced-by-ValueObject")
TV_DOMAIN = {"callable": ("1", "2", None, ""), "ValueObject(callable)": ("1", "2", None, ""),
             "NumberValueObject(callable,ge)": (0, 1, 2), "BoolValueObject(callable)": (True, False),
             "entry-replaced": ("1", "2", None, ""), "entry-replaced-by-ValueObject": ("1", "2", None, "")}
TV_PROVIDERS = {True: ("dict", "atvp", "composite-over-dict-member", "composite-over-ActiveTagValueProvider-member"),
                False: ("dict", "atvp", "composite-member-entry", "composite-own-entry")}
TV_ORDERS = ("exclude>run", "run")


def tv_sequences(domain):
    out = []
    for k in (2, 3):
        for seq in itertools.product(domain, repeat=k):
            if all(seq[i] is not seq[i + 1] and not (seq[i] == seq[i + 1] and type(seq[i]) is type(seq[i + 1]))
                   for i in range(k - 1)):
                out.append(seq)
    return out


def tv_predicate(holder, val):
    if holder.startswith("NumberValueObject"):
        return lambda tv: is_int_text(tv) and val >= int(tv)
    if holder.startswith("BoolValueObject"):
        return ref_bool_predicate(val)
    return lambda tv: tv == val


def tv_build(holder, pkind, first):
    """-> (provider, set_source(value)); the provider is built while the source has the value `first`"""
    A, C = TM.ActiveTagValueProvider, TM.CompositeActiveTagValueProvider
    lazy = not holder.startswith("entry-replaced")
    if lazy:
        cell = [first]
        src = lambda: cell[0]       # noqa: E731
        held = {"callable": src, "ValueObject(callable)": None, "NumberValueObject(callable,ge)": None,
                "BoolValueObject(callable)": None}[holder]
        if holder == "ValueObject(callable)":
            held = TM.ValueObject(src)
        elif holder.startswith("NumberValueObject"):
            held = TM.NumberValueObject(src, operator.ge)
        elif holder.startswith("BoolValueObject"):
            held = TM.BoolValueObject(src)
        base = {"t": held, "k": "1"}
        if pkind == "dict":
            prov = base
        elif pkind == "atvp":
            prov = A(base)
        elif pkind == "composite-over-dict-member":
            prov = C([base])
        else:
            prov = C([{"o": "1"}, A(base)])
        return prov, (lambda v: cell.__setitem__(0, v))
    wrap = (lambda v: TM.ValueObject(v)) if holder.endswith("ValueObject") else (lambda v: v)
    base = {"t": wrap(first), "k": "1"}
    if pkind == "dict":
        prov, target = base, base
    elif pkind == "atvp":
        prov = A(base)
        target = prov
    elif pkind == "composite-member-entry":
        prov, target = C([{"o": "1"}, base]), base
    else:
        prov = C([{"o": "1"}, base])
        target = prov
    return prov, (lambda v: target.__setitem__("t", wrap(v)))


def tv_accepts_kept(holder, pkind):
    """the documented caching of the composite provider: a value DISCOVERED in a member is kept"""
    return pkind == "composite-member-entry" or (holder == "callable" and
                                                 pkind == "composite-over-ActiveTagValueProvider-member")


def check_time_varying(case):
    """one (holder kind, tag list): every value sequence x provider x query order on ONE matcher + provider"""
    holder, idxs = case
    tags = tuple(TV_ALPHABET[i] for i in idxs)
    lazy = not holder.startswith("entry-replaced")
    involved = any(parse_active(t, DEFAULT_PREFIXES, "=") for t in tags)
    v, obs, n = [], [], 0
    failures = {}
    for seq in tv_sequences(TV_DOMAIN[holder]):
        for pkind in TV_PROVIDERS[lazy]:
            for order in TV_ORDERS:
                prov, set_source = tv_build(holder, pkind, seq[0])
                matcher = TM.ActiveTagMatcher(prov)
                answers = []
                for i, val in enumerate(seq):
                    if i:
                        set_source(val)
                    got = query_order(matcher, tags, order)
                    n += 1
                    answers.append(got)
                    accept = [val]
                    if i and involved and tv_accepts_kept(holder, pkind):
                        accept.append(seq[0])
                    wants = [ref_exclude(tags, {"t": tv_predicate(holder, a), "k": (lambda tv: tv == "1")}) for a in accept]
                    if any(not order_faults(got, w, order) for w in wants):
                        continue
                    # differential diagnosis: what does a matcher + provider built at this moment say?
                    fprov, _ = tv_build(holder, pkind, val)
                    fresh = query_order(TM.ActiveTagMatcher(fprov), tags, order)
                    clause = "stale-value" if not order_faults(fresh, wants[0], order) else "formula"
                    stale_from = [j for j in range(i) if not order_faults(
                        got, ref_exclude(tags, {"t": tv_predicate(holder, seq[j]), "k": (lambda tv: tv == "1")}), order)]
                    failures.setdefault((clause, pkind), []).append(
                        "%s held as %s in provider %s, source values over time %r, calls %s each time: query #%d on tags "
                        "%r -> (exclude, run) = %r, with the source's value %r at that moment the documented logic says "
                        "exclude=%s (a matcher + provider built at that moment says %r%s)"
                        % ("category t", holder, pkind, list(seq), order, i + 1, list(tags), got, val, wants[0], fresh,
                           "; the answer fits the earlier value of query #%d" % (stale_from[0] + 1) if stale_from else ""))
                    break
                obs.append((seq, pkind, order, answers))
    hclass = "value-object-over-callable" if holder.endswith("(callable)") or "(callable," in holder else holder
    plain_fail = set(c for (c, pk) in failures if pk in ("dict", "atvp"))
    for (clause, pkind), msgs in sorted(failures.items()):
        d = {"subcheck": "time-varying", "clause": clause, "holder": hclass}
        if clause not in plain_fail:
            d["provider"] = "CompositeActiveTagValueProvider" if pkind.startswith("composite") else pkind
        for m in msgs:
            v.append((d, m))
    nt = ("time", case) if involved else None
    return {"v": v, "nt": nt, "out": ("time", holder, obs[0][3][0] if obs else None), "dg": obs, "n": n}


# ---- construction histories ---------------------------------------------------------------------------
# Several matcher classes / configurations live in one process (base class, subclasses that customise the separator,
# the prefixes or the schema through CLASS attributes, explicit constructor arguments, a class attribute re-assigned
# between two constructions).  Constructing one matcher must never influence another: every matcher of a history
# decides - when built, and again after everything else was built - exactly like the same variant constructed ALONE,
# i.e. by the formula with its own resolved prefixes / separator / schema.  Each history runs in a private fresh copy
# of behave.tag_matcher (fresh class-level state, nothing leaks between cases or into the other sweeps).
CH_SCHEMA_IF = r"^(?P<prefix>%s)\.if_(?P<category>\w+(\.\w+)*)%s(?P<value>.*)$"
# variant -> (resolved prefixes, separator, marker, parameter source)
CH_VARIANTS = {
    "base-defaults": (DEFAULT_PREFIXES, "=", ".with_", "class-attributes"),
    "subclass-separator-colon": (DEFAULT_PREFIXES, ":", ".with_", "class-attributes"),
    "subclass-separator-dash": (DEFAULT_PREFIXES, "-", ".with_", "class-attributes"),
    "subclass-schema-if": (DEFAULT_PREFIXES, "=", ".if_", "class-attributes"),
    "subclass-prefixes-use-not": (("use", "not"), "=", ".with_", "class-attributes"),
    "subclass-prefixes-use-not-colon": (("use", "not"), ":", ".with_", "class-attributes"),
    "base-attribute-reassigned-colon": (DEFAULT_PREFIXES, ":", ".with_", "class-attributes"),
    "explicit-separator-colon": (DEFAULT_PREFIXES, ":", ".with_", "constructor-arguments"),
    "explicit-prefixes-use-not": (("use", "not"), "=", ".with_", "constructor-arguments"),
}
CH_NAMES = tuple(CH_VARIANTS)
CH_VALUES = {"a": "1", "b": "x"}
CH_TAGS = tuple("%s%s%s%s%s" % (pre, marker, cat, sep, val)
                for marker in (".with_", ".if_") for sep in ("=", ":", "-")
                for pre, cat, val in (("use", "a", "1"), ("use", "a", "2"), ("not", "a", "1"), ("only", "a", "2"),
                                      ("not_active", "a", "1"), ("use", "zz", "1"))) + ("foo",)
CH_QUERIES = tuple((t,) for t in CH_TAGS) + tuple((CH_TAGS[i], CH_TAGS[(i * 7 + 3) % len(CH_TAGS)])
                                                   for i in range(0, len(CH_TAGS), 2))
_CH_CODE = {}


def fresh_tag_matcher_module():
    """a private, freshly executed copy of behave/tag_matcher.py (not registered in sys.modules)"""
    import types
    import behave.tag_matcher as real
    path = real.__file__
    if path.endswith(("c", "o")):
        path = path[:-1]
    if path not in _CH_CODE:
        with open(path) as f:
            _CH_CODE[path] = compile(f.read(), path, "exec")
    mod = types.ModuleType("behave.tag_matcher")
    mod.__package__ = "behave"
    mod.__file__ = path
    exec(_CH_CODE[path], mod.__dict__)
    return mod


def ch_construct(M, name, classes):
    """construct one variant inside module copy M; -> matcher.  `classes` memoises the subclasses of this copy"""
    base = M.ActiveTagMatcher
    vals = dict(CH_VALUES)
    if name == "base-defaults":
        return base(vals)
    if name == "explicit-separator-colon":
        return base(vals, value_separator=":")
    if name == "explicit-prefixes-use-not":
        return base(vals, tag_prefixes=["use", "not"])
    if name == "base-attribute-reassigned-colon":
        saved = base.value_separator
        base.value_separator = ":"
        try:
            return base(vals)
        finally:
            base.value_separator = saved
    if name not in classes:
        attrs = {"subclass-separator-colon": {"value_separator": ":"},
                 "subclass-separator-dash": {"value_separator": "-"},
                 "subclass-schema-if": {"tag_schema": CH_SCHEMA_IF},
                 "subclass-prefixes-use-not": {"tag_prefixes": ["use", "not"]},
                 "subclass-prefixes-use-not-colon": {"tag_prefixes": ["use", "not"], "value_separator": ":"}}[name]
        classes[name] = type("Matcher_" + name.replace("-", "_"), (base,), attrs)
    return classes[name](vals)


def ch_observe(matcher):
    """pattern text + every verdict"""
    return (matcher.tag_pattern.pattern, tuple(query(matcher, q) for q in CH_QUERIES))


def ch_reference(name):
    prefixes, sep, marker, _src = CH_VARIANTS[name]
    known = {"a": (lambda tv: tv == "1"), "b": (lambda tv: tv == "x")}
    return tuple(ref_exclude(q, known, prefixes, sep, marker) for q in CH_QUERIES)


def ch_play(history):
    """-> list of (name, observation when built, observation after everything was built)"""
    M = fresh_tag_matcher_module()
    classes, built = {}, []
    for name in history:
        m = ch_construct(M, name, classes)
        built.append((name, m, ch_observe(m)))
    return [(name, first, ch_observe(m)) for name, m, first in built]


def ch_faults(obs, ref):
    """indexes of queries answered wrongly (exclude wrong, run not its negation, or exception)"""
    return [i for i, (g, w) in enumerate(zip(obs[1], ref)) if g[0] == "EXC" or g[0] != w or g[1] != (not w)]


def check_construction_history(history):
    history = tuple(history)
    names = [CH_NAMES[i] for i in history]
    v, obs, n = [], [], 0
    alone = {}
    for name in sorted(set(names)):
        alone[name] = ch_play((name,))[0][1]
    played = ch_play(names)
    for pos, (name, first, later) in enumerate(played):
        ref = ch_reference(name)
        n += 2 * len(CH_QUERIES)
        obs.append((name, first, later))
        src = CH_VARIANTS[name][3]
        if ch_faults(alone[name], ref) and pos == names.index(name):
            i = ch_faults(alone[name], ref)[0]
            v.append(({"subcheck": "construction-history", "clause": "formula", "variant": name},
                      "matcher variant %s constructed alone: tags %r -> %r, its own prefixes/separator/schema say "
                      "exclude=%s" % (name, list(CH_QUERIES[i]), alone[name][1][i], ref[i])))
            continue
        for moment, o in (("when built", first), ("after the later constructions", later)):
            bad = ch_faults(o, ref)
            pattern_differs = o[0] != alone[name][0]
            if not bad and not pattern_differs:
                continue
            # minimal trigger: which single other construction is enough?
            others = names[:pos] if moment == "when built" else names[:pos] + names[pos + 1:]
            culprit = None
            for other in others:
                seq = (other, name) if (moment == "when built" or other in names[:pos]) else (name, other)
                res = ch_play(seq)
                k = seq.index(name) if seq[0] != seq[1] else 1
                o2 = res[k][1] if moment == "when built" else res[k][2]
                if ch_faults(o2, ref) or o2[0] != alone[name][0]:
                    culprit = other
                    break
            d = {"subcheck": "construction-history",
                 "clause": "verdict-depends-on-other-construction" if bad else "tag-pattern-depends-on-other-construction",
                 "parameters-from": src,
                 "other-parameters-from": CH_VARIANTS[culprit][3] if culprit else "combination",
                 "other-built": "earlier" if (moment == "when built" or (culprit in names[:pos])) else "later"}
            if bad:
                i = bad[0]
                detail = "tags %r -> (exclude, run) = %r, its own prefixes/separator/schema say exclude=%s" % (
                    list(CH_QUERIES[i]), o[1][i], ref[i])
            else:
                detail = "tag_pattern is %r" % (o[0],)
            v.append((d, "constructions in one process %r: matcher #%d (%s) %s: %s; constructed alone its tag_pattern is "
                         "%r%s" % (names, pos + 1, name, moment, detail, alone[name][0],
                                   " (already wrong after constructing only %s)" % culprit if culprit else "")))
            break
    nt = ("construct", history) if len(set(names)) > 1 else None
    return {"v": v, "nt": nt, "out": ("construct", tuple(sorted(set(CH_VARIANTS[x][1:3] for x in names)))),
            "dg": [(nm, f, l) for nm, f, l in obs], "n": n}


# ---- composite tag matchers in one process ----------------------------------------------------------------
# Two or three CompositeTagMatcher objects are built (members given as a list, argument omitted, None, or an empty
# list) and filled through the public .tag_matchers list.  A composite excludes iff one of ITS OWN members excludes;
# its member list is its own; an empty composite never excludes - whatever other composites exist.  Private fresh
# copy of behave.tag_matcher per history.
CM_BUILDS = ("explicit-list", "argument-omitted", "None", "empty-list")
CM_MEMBERS = ((), ("a=1",), ("a=2",), ("b=x",), ("a=2", "b=y"), ("foo",))
CM_MEMBERS_SMALL = (0, 1, 4)
CM_QUERIES = ((), ("use.with_a=1",), ("use.with_a=2",), ("not.with_a=1",), ("use.with_b=x",), ("use.with_b=y",),
              ("not.with_b=x",), ("foo",), ("use.with_a=1", "use.with_b=x"), ("use.with_a=2", "not.with_b=y"),
              ("use.with_zz=1", "bar"))


def cm_member(M, spec):
    if spec == "foo":
        return M.PredicateTagMatcher(lambda tags: "foo" in tags)
    cat, val = spec.split("=")
    return M.ActiveTagMatcher({cat: val})


def cm_member_ref(spec, tags):
    if spec == "foo":
        return "foo" in tags
    cat, val = spec.split("=")
    return ref_exclude(tags, {cat: (lambda tv, val=val: tv == val)})


def cm_observe(c):
    try:
        count = len(c.tag_matchers)
    except Exception as ex:
        count = "EXC:%s" % type(ex).__name__
    return count, tuple(query(c, q) for q in CM_QUERIES)


def cm_play(history, fill_late):
    """history: ((build kind, member-set index), ...) -> [(observation when built+filled, observation at the end)]"""
    M = fresh_tag_matcher_module()
    comps, firsts, pending = [], [], []
    for build, mi in history:
        specs = CM_MEMBERS[mi]
        if build == "explicit-list":
            c = M.CompositeTagMatcher([cm_member(M, sp) for sp in specs])
            specs = ()
        elif build == "argument-omitted":
            c = M.CompositeTagMatcher()
        elif build == "None":
            c = M.CompositeTagMatcher(None)
        else:
            c = M.CompositeTagMatcher([])
        comps.append(c)
        if fill_late:
            pending.append((c, specs))
            firsts.append(None)
        else:
            for sp in specs:
                c.tag_matchers.append(cm_member(M, sp))
            firsts.append(cm_observe(c))
    for c, specs in pending:
        for sp in specs:
            c.tag_matchers.append(cm_member(M, sp))
    return [(f, cm_observe(c)) for f, c in zip(firsts, comps)]


def cm_wrong(obs, mi):
    """-> None or (kind, detail)"""
    specs = CM_MEMBERS[mi]
    count, answers = obs
    if count != len(specs):
        return "member-count", "len(.tag_matchers) = %r, its own members are %d" % (count, len(specs))
    for q, g in zip(CM_QUERIES, answers):
        want = any(cm_member_ref(sp, q) for sp in specs)
        if g[0] == "EXC" or g[0] != want or g[1] != (not want):
            return "verdict", "tags %r -> (exclude, run) = %r, its own members %r say exclude=%s" % (list(q), g, list(specs), want)
    return None


def cm_class(build):
    return "argument-omitted-or-None" if build in ("argument-omitted", "None") else build


def check_composite_history(case):
    hist_idx, fill_late = case
    history = tuple((CM_BUILDS[b], mi) for b, mi in hist_idx)
    played = cm_play(history, fill_late)
    v, obs, n = [], [], 0
    for pos, ((build, mi), (first, last)) in enumerate(zip(history, played)):
        obs.append((build, mi, first, last))
        for moment, o in (("when built and filled", first), ("after all composites were built and filled", last)):
            if o is None:
                continue
            n += len(CM_QUERIES)
            w = cm_wrong(o, mi)
            if w is None:
                continue
            alone = cm_wrong(cm_play(((build, mi),), fill_late)[0][1], mi)
            if alone is not None:
                d = {"subcheck": "composite-history", "clause": "formula", "built": cm_class(build)}
                msg = "CompositeTagMatcher (%s, members %r) on its own: %s" % (build, list(CM_MEMBERS[mi]), alone[1])
            else:
                culprit = None
                for opos, other in enumerate(history):
                    if opos == pos:
                        continue
                    pair = (other, (build, mi)) if opos < pos else ((build, mi), other)
                    k = 1 if opos < pos else 0
                    res = cm_play(pair, fill_late)[k]
                    if any(x is not None and cm_wrong(x, mi) for x in res):
                        culprit = other
                        break
                d = {"subcheck": "composite-history",
                     "clause": "member-list-shared-with-other-composite" if w[0] == "member-count"
                     else "verdict-depends-on-other-composite",
                     "built": cm_class(build), "other-built": cm_class(culprit[0]) if culprit else "combination"}
                msg = ("composites built in one process %r (%s): composite #%d %s: %s%s"
                       % ([(b, list(CM_MEMBERS[m])) for b, m in history],
                          "all built, then filled" if fill_late else "each filled right after it was built", pos + 1,
                          moment, w[1], " (already with only %r beside it)" % (culprit,) if culprit else ""))
            v.append((d, msg))
            break
    nt = ("composite", case) if len(history) > 1 else None
    return {"v": v, "nt": nt, "out": ("composite", tuple(o[3][0] for o in obs), obs[0][3][1][:4]), "dg": obs, "n": n}


# ---- providers that look empty ---------------------------------------------------------------------------
# Truthiness / len() of a provider says nothing about what it knows: a composite provider is a UserDict whose
# own data is only the lookup cache.  Every tag multiset x every order of the two questions, fresh objects each time.
def corner_providers():
    A = TM.ActiveTagValueProvider
    C = TM.CompositeActiveTagValueProvider
    one = lambda tv: tv == "1"      # noqa: E731
    return (
        ("None", lambda: None, {}),
        ("empty-dict", lambda: {}, {}),
        ("empty-ActiveTagValueProvider", lambda: A({}), {}),
        ("ActiveTagValueProvider()", lambda: A(), {}),
        ("composite-without-members", lambda: C([]), {}),
        ("composite()", lambda: C(), {}),
        ("composite-of-empty-members", lambda: C([{}, A({})]), {}),
        ("composite-known-in-last-member", lambda: C([{}, A({}), {"a": "1"}]), {"a": one}),
        ("composite-known-in-only-member", lambda: C([{"a": "1"}]), {"a": one}),
        ("composite-of-composite", lambda: C([C([{"a": "1"}])]), {"a": one}),
    )


def check_corner(idxs):
    tags = tuple(ALPHABET[i] for i in idxs)
    v, obs, n = [], [], 0
    for name, mkp, known in corner_providers():
        want = ref_exclude(tags, known)
        for order in ORDERS:
            got = query_order(TM.ActiveTagMatcher(mkp()), tags, order)
            n += 1
            obs.append((name, order, got))
            for call, position in order_faults(got, want, order):
                d = {"subcheck": "query-order", "clause": "formula", "call": call, "position": position,
                     "provider": ("CompositeActiveTagValueProvider" if name.startswith("composite") else
                                  "ActiveTagValueProvider" if "ActiveTagValueProvider" in name else "dict"),
                     "direction": "runs-but-must-be-excluded" if want else "excluded-but-must-run"}
                v.append((d, "provider %s (fresh), calls %s on tags %r -> (exclude, run) = %r, the documented logic "
                             "says exclude=%s" % (name, order, list(tags), got, want)))
    nt = ("corner", idxs) if any(parse_active(t, DEFAULT_PREFIXES, "=") for t in tags) else None
    return {"v": v, "nt": nt, "out": ("corner", tuple(o[2] for o in obs[-8:])), "dg": obs, "n": n}


# ---- shipped providers ---------------------------------------------------------------------------
def _probe_features():
    import keyword
    try:
        compile("async def f():\n    pass\n", "<probe>", "exec")
        async_function = True
    except SyntaxError:
        async_function = False
    try:
        import asyncio
        decorator = hasattr(asyncio, "coroutine")
    except ImportError:
        decorator = False
    return {"async_function": async_function, "async_keyword": keyword.iskeyword("async"),
            "asyncio.coroutine_decorator": decorator, "coroutine": async_function or decorator}


def _version_tuple(text):
    parts = text.split(".")
    if not all(p.isdigit() for p in parts):
        return None
    return tuple(int(p) for p in parts)


def shipped_reference():
    """category -> predicate(tag_value), from the interpreter itself (not from behave)"""
    import platform
    V = tuple(sys.version_info[:2])
    feats = _probe_features()
    impl = platform.python_implementation()
    py = {
        "python2": ref_bool_predicate(V[0] == 2),
        "python3": ref_bool_predicate(V[0] == 3),
        "python.version": lambda v: v == "%d.%d" % V,
        "python.min_version": lambda v: _version_tuple(v) is not None and V >= _version_tuple(v),
        "python.max_version": lambda v: _version_tuple(v) is not None and V <= _version_tuple(v),
        "os": lambda v: v == sys.platform.lower(),
        "platform": lambda v: v == sys.platform,
        "python.implementation": lambda v: v == impl.lower(),
        "pypy": ref_bool_predicate(impl == "PyPy"),
    }
    pf = {}
    for name in ("coroutine", "asyncio.coroutine_decorator", "async_function", "async_keyword"):
        pf["python.feature." + name] = ref_bool_predicate(feats[name])
        pf["python_has_" + name] = ref_bool_predicate(feats[name])
    return py, pf


def shipped_tags():
    V = tuple(sys.version_info[:2])
    versions = ["%d.%d" % V, "%d.%d" % (V[0], V[1] + 1), "%d.%d" % (V[0] + 1, 0), "%d.%d" % (V[0] - 1, 99), "x.y"]
    if V[1] > 0:
        versions.append("%d.%d" % (V[0], V[1] - 1))
    if V[1] >= 10:
        versions.append("%d.9" % V[0])           # below numerically, above as a string
    strings = lambda cur: [cur, "win32" if cur != "win32" else "linux", ""]     # noqa: E731
    import platform
    values = {
        "python2": ["yes", "no", "maybe"], "python3": ["yes", "no", "maybe", "true"], "pypy": ["yes", "no", "maybe"],
        "python.version": versions, "python.min_version": versions, "python.max_version": versions,
        "os": strings(sys.platform.lower()), "platform": strings(sys.platform),
        "python.implementation": [platform.python_implementation().lower(), "jython", ""],
    }
    for name in ("coroutine", "asyncio.coroutine_decorator", "async_function", "async_keyword"):
        values["python.feature." + name] = ["yes", "no", "maybe"]
        values["python_has_" + name] = ["yes", "no"]
    tags = []
    for cat in sorted(values):
        for i, val in enumerate(values[cat]):
            tags.append("use.with_%s=%s" % (cat, val))
            tags.append("not.with_%s=%s" % (cat, val))
            if i == 0:
                tags.append("only.with_%s=%s" % (cat, val))
                tags.append("not_active.with_%s=%s" % (cat, val))
            if i == 1:
                tags.append("active.with_%s=%s" % (cat, val))
    tags += ["use.with_zz=1", "not.with_python=3", "python3"]
    return tuple(tags)


_SHIPPED = {}


def check_shipped(idxs):
    if not _SHIPPED:
        from behave.active_tag.python import ACTIVE_TAG_VALUE_PROVIDER as PY
        from behave.active_tag.python_feature import ACTIVE_TAG_VALUE_PROVIDER as PF
        py, pf = shipped_reference()
        both = dict(py)
        both.update(pf)
        _SHIPPED.update(tags=shipped_tags(), PY=PY, PF=PF, py=py, pf=pf, both=both)
    S = _SHIPPED
    tags_up = tuple(S["tags"][i] for i in idxs)
    orders = [tags_up] if len(set(tags_up)) <= 1 else [tags_up, tuple(reversed(tags_up))]
    v, obs, n = [], [], 0
    both_real = dict(S["PY"])
    both_real.update(S["PF"])
    # (name, provider factory, reference categories, provider kind, the same values as one plain dict)
    configs = (("python", lambda: S["PY"], S["py"], "dict", S["PY"]),
               ("python_feature", lambda: S["PF"], S["pf"], "dict", S["PF"]),
               ("ActiveTagValueProvider(python)", lambda: TM.ActiveTagValueProvider(dict(S["PY"])), S["py"], "atvp", S["PY"]),
               ("Composite(python,python_feature)",
                lambda: TM.CompositeActiveTagValueProvider([S["PY"], S["PF"]]), S["both"], "comp", both_real))
    cats = set()
    memo = {}
    for cname, mkp, known, pkind, plain in configs:
        def make(pk, mkp=mkp, plain=plain):
            return TM.ActiveTagMatcher(dict(plain) if pk == "dict" else mkp())
        for oi, tags in enumerate(orders):
            want = ref_exclude(tags, known)
            got = query(TM.ActiveTagMatcher(mkp()), tags)
            n += 1
            obs.append((cname, oi, got))
            involved = sorted(set(p[1] for p in (parse_active(t, DEFAULT_PREFIXES, "=") for t in tags)
                                  if p and p[1] in known))
            cats.update(involved)

            def diag(tags=tags, known=known, make=make, pkind=pkind):
                d = dict(diagnose(tags, known, make, pkind, "shipped", memo))
                if d.get("kind") == "shipped":
                    # name the shipped category whose group is decided wrongly (single-category re-query)
                    for c in involved:
                        sub = [t for t in tags if (parse_active(t, DEFAULT_PREFIXES, "=") or (0, 0))[1] == c]
                        if query(make(pkind), sub)[0] != ref_exclude(sub, known):
                            d["kind"] = "shipped:%s" % c
                            break
                return d
            if oi == 0 and got == (want, not want):
                n += judge_orders(v, obs, lambda mkp=mkp: TM.ActiveTagMatcher(mkp()), tags, want,
                                  "shipped provider %s" % cname, CLASSNAME[pkind])
            judge(v, got, want, "shipped provider %s on Python %s / %s"
                  % (cname, ".".join(map(str, sys.version_info[:3])), sys.platform), tags, diag,
                  extra={"kind": "shipped", "provider": family(pkind)} if got[0] == "EXC" else None)
    nt = (idxs if cats else None)
    return {"v": v, "nt": ("shipped", nt) if nt is not None else None, "out": ("shipped", obs[0][2], tuple(sorted(cats))[:2]),
            "dg": obs, "n": n}


# ---------------------------------------------------------------- driver
def multisets(nsym, maxsize):
    for k in range(0, maxsize + 1):
        for c in itertools.combinations_with_replacement(range(nsym), k):
            yield c


def run(ctx):
    init_worker()
    size = 3 if ctx.quick else 4
    bsize = 3 if ctx.quick else 4
    ssize = 2 if ctx.quick else 3
    ntags = len(shipped_tags())
    ctx.bounds = {"multiset_size": size, "multiset_size_plain_strings": size if ctx.quick else 5,
                  "composite_builds": list(CM_BUILDS), "composite_member_sets": [list(m) for m in CM_MEMBERS],
                  "composite_history_length": "2 (all), 3 (%s)" % ("3 member sets" if ctx.quick else "all"),
                  "construction_history_variants": list(CH_NAMES), "construction_history_length": 3,
                  "time_varying_holders": list(TV_HOLDERS), "time_varying_sequence_lengths": [2, 3],
                  "time_varying_tag_multiset_size": 2 if ctx.quick else 3, "override_routes": list(OV_ROUTES), "override_values": list(OV_VALUES), "override_member_states": list(OV_MEMBER),
                  "override_tag_multiset_size": 2 if ctx.quick else 3, "query_orders": list(ORDERS), "query_order_value_kinds_main_sweep": list(ORDER_KINDS),
                  "history_length": 2 if ctx.quick else 3, "history_operations": ["%s(%s)" % o for o in H_OPS],
                  "falsy_current_values": [n for n, _ in FALSY_VALUES], "falsy_alphabet": list(FALSY_ALPHABET), "alphabet": list(ALPHABET), "assignments": len(ASSIGNMENTS),
                  "value_kinds": list(KINDS), "providers": ["dict", "ActiveTagValueProvider", "Composite(2)"],
                  "bool_multiset_size": bsize, "shipped_tag_pool": ntags, "shipped_multiset_size": ssize}
    ctx.note("python", ".".join(map(str, sys.version_info[:3])))
    ctx.note("platform", sys.platform)
    ctx.sweep(check_multiset, ((ms, asg) for ms in multisets(len(ALPHABET), size) for asg in ASSIGNMENTS),
              chunk=32, name="tag multisets x assignments")
    if not ctx.quick:
        ctx.sweep(check_multiset, ((ms, asg, 0) for ms in itertools.combinations_with_replacement(range(len(ALPHABET)), 5)
                                   for asg in ASSIGNMENTS),
                  chunk=64, name="tag multisets of size 5, plain string values")
    ctx.sweep(check_bool, ((ms, cur, lazy) for ms in multisets(len(BOOL_ALPHABET), bsize)
                           for cur in (True, False, None) for lazy in (False, True) if not (cur is None and lazy)),
              chunk=32, name="boolean value objects")
    ctx.sweep(check_falsy, ((ms, fi, wb) for ms in multisets(len(FALSY_ALPHABET), size)
                            for fi in range(len(FALSY_VALUES)) for wb in (0, 1)),
              chunk=32, name="known category with None/falsy current value")
    hlen = 2 if ctx.quick else 3
    ctx.sweep(check_history, ((pk, h) for k in range(0, hlen + 1) for h in itertools.product(range(len(H_OPS)), repeat=k)
                              for pk in H_PROVIDERS),
              chunk=32, name="provider histories before the matcher query")
    ctx.sweep(check_corner, multisets(len(ALPHABET), size), chunk=16, name="providers that look empty x query order")
    ctx.sweep(check_construction_history, (h for k in (1, 2, 3) for h in itertools.product(range(len(CH_NAMES)), repeat=k)),
              chunk=8, name="construction histories of matcher variants")
    cm_all = [(b, m) for b in range(len(CM_BUILDS)) for m in range(len(CM_MEMBERS))]
    cm_small = [(b, m) for b in range(len(CM_BUILDS)) for m in CM_MEMBERS_SMALL]

    def cm_cases():
        for late in (0, 1):
            for k in (1, 2):
                for h in itertools.product(cm_all, repeat=k):
                    yield (h, late)
            for h in itertools.product(cm_small if ctx.quick else cm_all, repeat=3):
                yield (h, late)
    ctx.sweep(check_composite_history, cm_cases(), chunk=16, name="composite tag matchers built in one process")
    ctx.sweep(check_time_varying, ((h, t) for t in multisets(len(TV_ALPHABET), 2 if ctx.quick else 3) for h in TV_HOLDERS),
              chunk=4, name="time-varying sources, one long-lived matcher")
    ctx.sweep(check_override, ((r, ms, lu, t) for t in multisets(len(OV_ALPHABET), 2 if ctx.quick else 3)
                               for r in OV_ROUTES for ms in OV_MEMBER for lu in OV_LINEUPS),
              chunk=16, name="values held in the composite provider itself")
    ctx.sweep(check_shipped, multisets(ntags, ssize), chunk=64, name="shipped providers")

    py, pf = shipped_reference()
    seen = set()
    for k in ctx.outcomes:
        if k[0] == "shipped":
            seen.update(k[2])
    ctx.guard(sum(1 for k in ctx.nt if k[0] == "main") > 5000,
              "at least 5000 distinct (multiset, assignment) with an active tag of a known category")
    ctx.guard(sum(1 for k in ctx.nt if k[0] == "bool") > 500, "at least 500 non-trivial boolean cases")
    ctx.guard(sum(1 for k in ctx.nt if k[0] == "composite") > 2000, "at least 2000 histories with several composite matchers")
    cmo = [k for k in ctx.outcomes if k[0] == "composite"]
    ctx.guard(any(0 in k[1] and any(c for c in k[1]) for k in cmo), "an empty composite beside a non-empty one was observed")
    ctx.guard(sum(1 for k in ctx.nt if k[0] == "construct") > 500, "at least 500 construction histories over different variants")
    refs = dict((nm, ch_reference(nm)) for nm in CH_NAMES)
    ctx.guard(len(set(refs.values())) >= 6 and all(any(r) and not all(r) for r in refs.values()),
              "matcher variants: at least 6 pairwise different reference verdict vectors, each with both verdicts")
    ctx.guard(sum(1 for k in ctx.nt if k[0] == "time") > 150, "at least 150 non-trivial (holder, tag list) with changing source")
    to = set(k[1:] for k in ctx.outcomes if k[0] == "time")
    ctx.guard(all((h, (True, False)) in to and (h, (False, True)) in to for h in TV_HOLDERS),
              "time-varying sweep: both verdicts observed for every holder kind")
    ctx.guard(sum(1 for k in ctx.nt if k[0] == "override") > 1000, "at least 1000 non-trivial composite-override cases")
    oo = set(k[1:] for k in ctx.outcomes if k[0] == "override")
    ctx.guard(all((r, (None, False)) in oo and (r, (None, True)) in oo for r in OV_ROUTES),
              "composite-override sweep: both verdicts observed on every route")
    ctx.guard(sum(1 for k in ctx.nt if k[0] == "corner") > 500, "at least 500 tag multisets on empty-looking providers")
    co = set(x for k in ctx.outcomes if k[0] == "corner" for x in k[1])
    ctx.guard((True, False) in co and (None, False) in co and (None, True) in co,
              "empty-looking providers: exclusion observed, and should_run_with asked alone gave both answers")
    ctx.guard(sum(1 for k in ctx.nt if k[0] == "history") > 1000, "at least 1000 non-empty provider histories")
    ctx.guard(sum(1 for k in ctx.nt if k[0] == "falsy") > 2000, "at least 2000 non-trivial None/falsy-value cases")
    fo = set(k[1:] for k in ctx.outcomes if k[0] == "falsy")
    ctx.guard(all((name, (True, False)) in fo and (name, (False, True)) in fo for name, _ in FALSY_VALUES),
              "for every falsy current value both verdicts (exclude / run) were observed")
    ctx.guard(seen >= set(py) | set(pf), "every category of both shipped providers was decided at least once")
    ctx.guard(sum(1 for k in ctx.nt if k[0] == "shipped") > 1000, "at least 1000 non-trivial shipped-provider cases")
    outs_main = set(k[1] for k in ctx.outcomes if k[0] == "main")
    ctx.guard((True, False) in outs_main and (False, True) in outs_main, "both verdicts (exclude / run) observed")
