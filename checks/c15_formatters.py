# -*- coding: utf-8 -*-
"""C15 - formatter event protocol well formed; JSON / plain / progress reports mirror the model (E1)."""
import io, json, re, itertools
from vlib import prog as P, refrun, harness
from vlib.core import digest

PROPERTY = "C15"
LEVEL = "exploration"
RULE = ("Programs: small feature trees (scenarios, outlines, rules, backgrounds at feature and rule level, one tagged element) with "
        "<= 1 (quick) / <= 2 (thorough) step-outcome deviations, steps decorated with tables / doc-strings / unicode, second "
        "feature; x formatter line-ups (every ordered subset of size 1-2, and size 3 on a core, of {plain, pretty, json, "
        "json.pretty, progress, progress2, progress3, null, rerun} between two recording formatters) x switches {show_skipped "
        "on/off with a tag expression, dry-run, no-timings/no-multiline/color}. Oracle: (1) the recorded event stream obeys the "
        "grammar uri feature background? (rule background? | scenario step^n (match result)^m)* eof ... close, with n = all "
        "steps of the shown scenario, m = processed steps predicted by the reference interpreter, the i-th result carrying the "
        "i-th announced step and the step's final status; first and last recorder see identical streams; (2) JSON output parses, "
        "its features/elements/steps/tables/doc-strings/statuses are those of the model, each status on its own element, and "
        "JsonParser reads it back to the same structure; (3) plain / progress2 / progress3 show each processed step once with "
        "its final status, pretty (colour off) shows every shown scenario followed by exactly its own steps; each formatter's output is independent of the line-up; formatters built from real `-f FORMAT "
        "[-o OUTFILE]` arguments (every ordered choice of 1-3 formats x every number of outfiles) write their own report "
        "into their own file / stdout. Non-trivial = distinct case with a non-pass "
        "outcome, a hidden scenario or > 1 formatter.")
ASSUMPTIONS = ["JSON has no element for rules: scenarios of rules are compared as flat feature elements",
               "text formatters are parsed with regexes written from their documented layout; colour escapes are stripped first"]

FORMATTERS = ("plain", "pretty", "json", "json.pretty", "progress", "progress2", "progress3", "null", "rerun")
DOTS = {".": "passed", "F": "failed", "E": "error", "H": "hook_error", "S": "skipped", "_": "untested",
        "u": "untested_undefined", "U": "undefined", "P": "pending"}
ANSI = re.compile(r"\x1b\[[0-9;]*[A-Za-z]")


def decorate(text, mode):
    """attach a table / doc-string / unicode to some steps (post-processing of the rendered feature text)"""
    if not mode:
        return text
    out = []
    k = 0
    for line in text.split("\n"):
        out.append(line)
        m = re.match(r"^(\s*)Given step (\d+) ", line)
        if m and "<" not in line:
            k += 1
            ind = m.group(1) + "  "
            if mode == "table" and k % 2 == 1:
                out += [ind + "| a | bü |", ind + "| 1 | é x |", ind + "|  | 2\\|3 |"]
            elif mode == "doc" and k % 2 == 1:
                out += [ind + '"""', ind + "line ü one", ind + "  indented two", "", ind + '"""']
    return "\n".join(out)


def shown_scenarios(ref, show_skipped):
    out = []
    for p in ref.visited:
        sel = ref.selected(ref.info[p][1]["tags"])
        if sel or show_skipped:
            out.append(p)
    return out


def check_stream(prog, ref, obs, events, show_skipped, names):
    """grammar automaton over one recorded event stream -> violations"""
    v = []

    def bad(clause, msg, **kw):
        d = {"subcheck": "events", "clause": clause, "dry": str(ref.dry)}
        d.update(kw)
        v.append((d, msg))
    ev = list(events)
    if not ev or ev[-1] != ("close",) or ev.count(("close",)) != 1:
        bad("close", "stream does not end with exactly one close: %r" % (ev[-3:],))
        return v
    ev = ev[:-1]
    i = 0
    seen_scenarios = []
    for fi, f in enumerate(prog):
        if i >= len(ev) or ev[i][0] != "uri":
            if fi in ref.not_started:
                continue
            bad("uri", "feature %d: expected uri at #%d, got %r" % (fi, i, ev[i:i + 2]))
            return v
        if fi in ref.not_started:
            bad("uri", "feature %d was never started but has events" % fi)
            return v
        i += 1
        if i < len(ev) and ev[i] == ("feature", (fi,)):
            i += 1
            if f[2] is not None:
                if i < len(ev) and ev[i][0] == "background":
                    i += 1
                else:
                    bad("background", "feature %d has a background but no background event follows" % fi)
                    return v
            while i < len(ev) and ev[i] != ("eof",):
                e = ev[i]
                if e[0] == "rule":
                    i += 1
                    node = P.get(prog, e[1]) if isinstance(e[1], tuple) else None
                    if node is not None and node[2] is not None:
                        if i < len(ev) and ev[i][0] == "background":
                            i += 1
                        else:
                            bad("background", "rule %r has a background but no background event follows" % (e[1],))
                            return v
                    continue
                if e[0] != "scenario":
                    bad("grammar", "unexpected event %r at #%d inside feature %d (before: %r)" % (e, i, fi, ev[max(0, i - 3):i]),
                        got=e[0])
                    return v
                path = e[1]
                seen_scenarios.append(path)
                i += 1
                steps = ref.info[path][1]["steps"] if path in ref.info else []
                want_names = list(ref.info[path][1]["names"]) if path in ref.info else []
                got_names = []
                while i < len(ev) and ev[i][0] == "step":
                    got_names.append(ev[i][1])
                    i += 1
                if got_names != want_names:
                    bad("step-announcements", "scenario %r announced steps %r, model has %r" % (path, got_names, want_names))
                    return v
                results = []
                while i < len(ev) and ev[i][0] == "match":
                    if i + 1 >= len(ev) or ev[i + 1][0] != "result":
                        bad("match-without-result", "scenario %r: match at #%d not followed by result" % (path, i))
                        return v
                    results.append(ev[i + 1])
                    i += 2
                if i < len(ev) and ev[i][0] == "result":
                    bad("result-without-match", "scenario %r: result at #%d without match" % (path, i))
                    return v
                m = len(ref.processed.get(path, []))
                sel = ref.selected(ref.info[path][1]["tags"])
                if not sel:
                    m = 0
                if len(results) != m:
                    bad("processed-count", "scenario %r: %d match/result pairs, %d steps were processed (announced %d)"
                        % (path, len(results), m, len(want_names)), kind="missing" if len(results) < m else "extra")
                    return v
                for k, r in enumerate(results):
                    if r[1] != want_names[k]:
                        bad("result-order", "scenario %r: result #%d is for %r, the %d-th announced step is %r"
                            % (path, k, r[1], k, want_names[k]))
                        return v
                    if r[2] != obs["steps"][path][k]:
                        bad("result-status", "scenario %r step %r: result event carried %s, final status %s"
                            % (path, r[1], r[2], obs["steps"][path][k]))
                        return v
            if i >= len(ev):
                bad("eof", "feature %d: no eof" % fi)
                return v
            i += 1
    if i != len(ev):
        bad("grammar", "trailing events %r" % (ev[i:i + 3],), got=ev[i][0])
    want = shown_scenarios(ref, show_skipped)
    if seen_scenarios != want:
        hidden_shown = [p for p in seen_scenarios if p not in want]
        bad("shown-scenarios", "scenario events for %r, expected %r" % (seen_scenarios, want),
            kind="hidden-shown" if hidden_shown else "missing")
    return v


def check_json(text, fname, prog, ref, obs, show_skipped, model):
    v = []

    def bad(clause, msg, **kw):
        d = {"subcheck": "json", "clause": clause, "formatter": fname, "dry": str(ref.dry)}
        d.update(kw)
        v.append((d, msg))
    try:
        data = json.loads(text)
    except Exception as e:
        bad("invalid-json", "output does not parse: %r" % (e,))
        return v
    feats, o2p, p2o = model
    started = [fi for fi in range(len(prog)) if fi not in ref.not_started]
    shown = shown_scenarios(ref, show_skipped)
    shown_feats = [fi for fi in started if any(p[0] == fi for p in shown) or any(True for d in data if d.get("name") == "F%d" % fi)]
    jf = {d.get("name"): d for d in data}
    for fi in started:
        f = feats[fi]
        want_shown = [p for p in shown if p[0] == fi]
        d = jf.get(f.name)
        if d is None:
            if want_shown:
                bad("feature-missing", "feature %s with shown scenarios is not in the JSON" % f.name)
            continue
        if d.get("status") != f.status.name:
            bad("feature-status", "feature %s: JSON status %r, model %s" % (f.name, d.get("status"), f.status.name))
        if list(d.get("tags", [])) != [str(t) for t in f.tags] or d.get("keyword") != f.keyword:
            bad("feature-fields", "feature %s: tags/keyword differ" % f.name)
        elements = d.get("elements", [])
        scen_elems = [e for e in elements if e.get("type") != "background"]
        bg_elems = [e for e in elements if e.get("type") == "background"]
        for e in bg_elems:
            if "status" in e and e["status"] is not None:
                bad("status-on-background", "feature %s: a background element carries status %r" % (f.name, e["status"]))
                break
        if len(scen_elems) != len(want_shown):
            bad("scenario-count", "feature %s: %d scenario elements, %d scenarios shown" % (f.name, len(scen_elems), len(want_shown)))
            continue
        for e, path in zip(scen_elems, want_shown):
            sc = p2o[path]
            if e.get("name") != sc.name:
                bad("scenario-order", "element %r where scenario %r expected" % (e.get("name"), sc.name))
                break
            if e.get("status") != sc.status.name:
                bad("scenario-status", "scenario %s: JSON status %r, model %s" % (sc.name, e.get("status"), sc.status.name),
                    got=str(e.get("status")))
                break
            if list(e.get("tags", [])) != [str(t) for t in sc.tags]:
                bad("scenario-tags", "scenario %s tags %r vs %r" % (sc.name, e.get("tags"), sc.tags))
            msteps = list(sc.all_steps)
            jsteps = e.get("steps", [])
            if [s.get("name") for s in jsteps] != [s.name for s in msteps]:
                bad("steps", "scenario %s: JSON steps %r, model %r" % (sc.name, [s.get("name") for s in jsteps], [s.name for s in msteps]))
                break
            nproc = len(ref.processed.get(path, [])) if ref.selected(ref.info[path][1]["tags"]) else 0
            for k, (js, ms) in enumerate(zip(jsteps, msteps)):
                res = js.get("result")
                if res is not None and res.get("status") != ms.status.name:
                    bad("step-status", "scenario %s step %r: JSON result %r, model %s"
                        % (sc.name, ms.name, res.get("status"), ms.status.name))
                    break
                if res is None and k < nproc:
                    bad("step-result-missing", "scenario %s step %r was processed (%s) but has no result in the JSON"
                        % (sc.name, ms.name, ms.status.name), status=ms.status.name)
                    break
                if res is not None and k >= nproc:
                    bad("step-result-extra", "scenario %s step %r was not processed but has result %r" % (sc.name, ms.name, res))
                    break
                if (js.get("keyword"), js.get("step_type")) != (ms.keyword, ms.step_type):
                    bad("step-fields", "scenario %s step %r keyword/type differ" % (sc.name, ms.name))
                jt = js.get("text")
                if isinstance(jt, list):
                    jt = "\n".join(jt)
                if (jt or None) != (str(ms.text) if ms.text else None):
                    bad("doc-string", "scenario %s step %r: JSON text %r, model %r" % (sc.name, ms.name, jt, ms.text))
                    break
                if ms.table is not None:
                    t = js.get("table") or {}
                    if t.get("headings") != list(ms.table.headings) or t.get("rows") != [list(r) for r in ms.table.rows]:
                        bad("table", "scenario %s step %r: JSON table %r, model %r" % (sc.name, ms.name, t, ms.table))
                        break
                elif js.get("table"):
                    bad("table", "scenario %s step %r: JSON has a table, model none" % (sc.name, ms.name))
    # read back
    try:
        from behave.json_parser import JsonParser
        reader = JsonParser()
        back = reader.parse_features(data)
        # LIBRARY USE: one reader object reads several reports (here: an unrelated report first, then this one twice);
        # every read-back must be that of a fresh reader
        other = [{"keyword": "Feature", "name": "Unrelated", "location": "u.feature:1", "status": "passed", "tags": [],
                  "elements": [{"type": "scenario", "keyword": "Scenario", "name": "U1", "location": "u.feature:2",
                                "tags": [], "status": "passed", "steps": []}]}]
        reader2 = JsonParser()
        reader2.parse_features(other)
        again = [reader2.parse_features(data), reader2.parse_features(data)]
        shape = lambda fs: [(f.name, [(s_.name, [(st.name, st.status.name) for st in s_.steps]) for s_ in f.scenarios])
                            for f in fs]
        for k_, ag in enumerate(again):
            if shape(ag) != shape(back):
                bad("read-back-depends-on-reader-history",
                    "a JsonParser that has read %d report(s) before reads this one back as %r; a fresh reader gives %r"
                    % (k_ + 1, [f.name for f in ag], [f.name for f in back]))
                break
    except Exception as e:
        bad("read-back-raises", "JsonParser.parse_features raised %r" % (e,), exc=type(e).__name__)
        return v
    for bf, d in zip(back, data):
        jscen = [e for e in d.get("elements", []) if e.get("type") != "background"]
        bscen = list(bf.scenarios)
        if [s.name for s in bscen] != [e.get("name") for e in jscen]:
            bad("read-back-structure", "feature %s read back with scenarios %r" % (bf.name, [s.name for s in bscen]))
            continue
        for bs, e in zip(bscen, jscen):
            for st, js in zip(bs.steps, e.get("steps", [])):
                if js.get("result") is not None and st.status.name != js["result"].get("status"):
                    bad("read-back-status", "read back step %r status %s, JSON %r" % (st.name, st.status.name, js["result"]))
                    break
    return v


def check_plain(text, fname, prog, ref, obs):
    v = []
    text = ANSI.sub("", text)
    got = []
    for line in text.splitlines():
        m = re.match(r"^\s+(?:Given|When|Then|And|But|\*)\s+(.*?) \.\.\. (\w+)(?: in [\d.]+s)?\s*$", line)
        if m:
            got.append((m.group(1), m.group(2)))
    want = []
    for p in ref.visited:
        if not ref.selected(ref.info[p][1]["tags"]):
            continue
        names = ref.info[p][1]["names"]
        for k in ref.processed.get(p, []):
            want.append((names[k], obs["steps"][p][k]))
    if got != want:
        i = next((k for k, (a, b) in enumerate(zip(got, want)) if a != b), min(len(got), len(want)))
        v.append(({"subcheck": "text", "clause": "processed-steps", "formatter": fname, "dry": str(ref.dry),
                   "kind": "missing" if len(got) < len(want) else "extra" if len(got) > len(want) else "differs"},
                  "%s shows steps %r ..., processed steps are %r ... (at #%d)" % (fname, got[i:i + 2], want[i:i + 2], i)))
    return v


def check_pretty(text, fname, prog, ref, obs, show_skipped, p2o):
    """pretty (colour off): every shown scenario's header is followed by exactly its own steps, in order; no step
    line stands under a Feature / Rule / Background header"""
    v = []
    text = ANSI.sub("", text)
    blocks = []
    for line in text.splitlines():
        m = re.match(r"^\s*(Feature|Rule|Background|Scenario Outline|Scenario): ?(.*?)\s*(?:# \S+)?$", line)
        if m and not line.lstrip().startswith(("Given ", "When ", "Then ", "And ", "But ", "* ")):
            blocks.append([m.group(1), m.group(2).strip(), []])
            continue
        m = re.match(r"^\s+(?:Given|When|Then|And|But|\*) (.*?)\s+# (\S+)\s*$", line)
        if m and blocks:
            blocks[-1][2].append(m.group(1))
    got = [(b[1], b[2]) for b in blocks if b[0].startswith("Scenario")]
    stray = [(b[0], b[1], b[2]) for b in blocks if not b[0].startswith("Scenario") and b[2]]
    want = []
    for path in shown_scenarios(ref, show_skipped):
        want.append((p2o[path].name.strip(), list(ref.info[path][1]["names"])))
    got = [(n.strip(), st) for n, st in got]
    if stray:
        v.append(({"subcheck": "text", "clause": "steps-under-non-scenario-header", "formatter": fname, "dry": str(ref.dry),
                   "header": stray[0][0]},
                  "pretty prints steps %r under the %s header %r" % (stray[0][2], stray[0][0], stray[0][1])))
    if got != want:
        i = next((k for k, (a, b) in enumerate(zip(got, want)) if a != b), min(len(got), len(want)))
        v.append(({"subcheck": "text", "clause": "scenario-steps", "formatter": fname, "dry": str(ref.dry),
                   "kind": "missing" if len(got) < len(want) else "extra" if len(got) > len(want) else "differs"},
                  "pretty shows %r, the model has %r (scenario block #%d)" % (got[i:i + 1], want[i:i + 1], i)))
    return v


def check_dots(text, fname, prog, ref, obs):
    v = []
    text = ANSI.sub("", text)
    want = []
    for p in ref.visited:
        if not ref.selected(ref.info[p][1]["tags"]):
            continue
        for k in ref.processed.get(p, []):
            want.append(obs["steps"][p][k])
    got = []
    if fname == "progress2":
        for line in text.splitlines():
            m = re.match(r"^f\d+\.feature  (\S*)\s*(?:#.*)?$", line)
            if m:
                got += list(m.group(1))
    else:
        for line in text.splitlines():
            m = re.match(r"^\s+(?:S|O)\d+_\d+(?: -- @[\d.]+ \S*)?  (\S*)\s*(?:#.*)?$", line)
            if m:
                got += list(m.group(1))
    inv = dict((v_, k) for k, v_ in DOTS.items())
    inv["pending_warn"] = "p"
    inv["untested_pending"] = "p"
    wantc = [inv.get(s, "?") for s in want]
    if got != wantc:
        v.append(({"subcheck": "text", "clause": "processed-steps", "formatter": fname, "dry": str(ref.dry),
                   "kind": "missing" if len(got) < len(wantc) else "extra" if len(got) > len(wantc) else "differs"},
                  "%s prints %r, processed step statuses are %r" % (fname, "".join(got), "".join(wantc))))
    return v


_ALONE = {}


def run_case(case):
    feat, cfgname, lineup, deco = case
    prog = (feat, P.F((P.S(("pass",)),)))
    cfg = dict(SWITCHES[cfgname])
    outs = {}

    def fm(config, o2p):
        from behave.formatter import _registry
        from behave.formatter.base import StreamOpener
        res = []
        for k, name in enumerate(lineup):
            cls = _registry.select_formatter_class(name)
            s = io.StringIO()
            outs[(k, name)] = s
            res.append(cls(StreamOpener(stream=s), config))
        last = harness.Recorder(last_log, o2p)
        res.append(last)
        return res
    last_log = []
    texts = [decorate(P.render(f, fi)[0], deco) for fi, f in enumerate(prog)]
    obs = harness.run_case(prog, cfg, record_events=True, formatters=fm, keep_model=True, texts=texts)
    ref = refrun.predict(prog, cfg)
    v = []
    if obs["escaped"]:
        v.append(({"subcheck": "run", "clause": "exception-escapes-run", "exc": obs["escaped"],
                   "lineup": "+".join(sorted(set(lineup)))},
                  "run() raised %s: %s with formatters %r" % (obs["escaped"], obs.get("escaped_msg"), lineup)))
        return {"v": v, "dg": obs["escaped"], "out": "escaped"}
    show_skipped = cfg.get("show_skipped", True)
    if obs["events"] != last_log:
        v.append(({"subcheck": "events", "clause": "formatters-see-different-streams"},
                  "first and last recorder disagree: %d vs %d events" % (len(obs["events"]), len(last_log))))
    v += check_stream(prog, ref, obs, obs["events"], show_skipped, None)
    feats, o2p, p2o, runner, config = obs["model"]
    for (k, name), s in outs.items():
        text = s.getvalue()
        if name in ("json", "json.pretty"):
            v += check_json(text, name, prog, ref, obs, show_skipped, (feats, o2p, p2o))
        elif name == "plain":
            v += check_plain(text, name, prog, ref, obs)
        elif name in ("progress2", "progress3"):
            v += check_dots(text, name, prog, ref, obs)
        elif name == "pretty" and "--no-color" in cfg.get("extra", ()):
            v += check_pretty(text, name, prog, ref, obs, show_skipped, p2o)
        # independence of the line-up: same output as when this formatter runs alone (durations masked)
        if len(lineup) > 1 and name in ("plain", "json.pretty", "progress3"):
            key = (feat, cfgname, deco, name)
            if key not in _ALONE:
                if len(_ALONE) > 200:
                    _ALONE.clear()
                o2 = {}

                def fm1(config, o2p, name=name, o2=o2):
                    from behave.formatter import _registry
                    from behave.formatter.base import StreamOpener
                    s1 = io.StringIO()
                    o2["s"] = s1
                    return [_registry.select_formatter_class(name)(StreamOpener(stream=s1), config)]
                harness.run_case(prog, cfg, formatters=fm1, texts=texts)
                _ALONE[key] = mask(o2["s"].getvalue())
            if mask(text) != _ALONE[key]:
                v.append(({"subcheck": "lineup", "clause": "output-depends-on-other-formatters", "formatter": name},
                          "%s output differs between line-up %r and running alone" % (name, lineup)))
    dry_undef = ref.dry and any(o == "undefined" for p_, _, i in P.walk_scenarios(prog) if ref.selected(i["tags"])
                                for _, o in i["steps"])
    for d, msg in v:
        d["trigger"] = "dry-run+undefined-step" if dry_undef else ""
    nonpass = any(o != "pass" for _, _, i in P.walk_scenarios(prog) for _, o in i["steps"])
    hidden = len(shown_scenarios(ref, show_skipped)) < len(ref.visited)
    nt = digest(case) if (nonpass or hidden or len(lineup) > 1) else None
    return {"v": v, "nt": nt, "out": (cfgname, len(lineup), nonpass, hidden, obs["verdict"]),
            "dg": (obs["events"], [(k, mask(s.getvalue())) for k, s in sorted(outs.items())])}


def files_case(case):
    """formatters built the way behave builds them: `-f FORMAT [-o OUTFILE]` pairs through the real Configuration and
    make_formatters(); the i-th outfile belongs to the i-th format, surplus formats write to stdout"""
    import tempfile, shutil, os
    feat, cfgname, formats, nout = case
    prog = (feat, P.F((P.S(("pass",)),)))
    cfg = dict(SWITCHES[cfgname])
    d = tempfile.mkdtemp(prefix="c15_", dir="/dev/shm" if os.path.isdir("/dev/shm") else None)
    try:
        extra = list(cfg.get("extra", []))
        paths = []
        for i, f in enumerate(formats):
            extra += ["-f", f]
        for i in range(nout):
            pth = os.path.join(d, "out%d.txt" % i)
            paths.append(pth)
            extra += ["-o", pth]
        cfg["extra"] = extra

        def fm(config, o2p):
            from behave.formatter._registry import make_formatters
            return make_formatters(config, config.outputs)
        obs = harness.run_case(prog, cfg, formatters=fm, keep_model=True)
        ref = refrun.predict(prog, cfg)
        v = []
        if obs["escaped"]:
            v.append(({"subcheck": "outfiles", "clause": "exception-escapes-run", "exc": obs["escaped"],
                       "surplus_formats": str(len(formats) - nout)},
                      "run() raised %s: %s with -f %r and %d outfiles" % (obs["escaped"], obs.get("escaped_msg"), formats, nout)))
            return {"v": v, "dg": obs["escaped"], "out": "escaped"}
        feats, o2p, p2o, runner, config = obs["model"]
        show_skipped = cfg.get("show_skipped", True)
        texts = []
        for i, f in enumerate(formats):
            if i < nout:
                try:
                    text = open(paths[i], encoding="utf-8").read()
                except Exception as e:
                    v.append(({"subcheck": "outfiles", "clause": "outfile-missing", "formatter": f},
                              "outfile #%d of formatter %s: %r" % (i, f, e)))
                    continue
            elif len(formats) - nout == 1:
                # stdout is shared with the runner's own diagnostics: its "ABORTED: By user." line is not formatter output
                text = re.sub(r"\n?ABORTED: By user\.\n", "\n", obs["stdout"])
            else:
                continue        # several formatters share stdout: interleaved, not separated here
            where = "outfile" if i < nout else "stdout"
            vv = []
            if f in ("json", "json.pretty"):
                vv = check_json(text, f, prog, ref, obs, show_skipped, (feats, o2p, p2o))
            elif f == "plain":
                vv = check_plain(text, f, prog, ref, obs)
            elif f in ("progress2", "progress3"):
                vv = check_dots(text, f, prog, ref, obs)
            for dd, msg in vv:
                dd["where"] = where
                dd["surplus_formats"] = str(len(formats) - nout)
            v += vv
            texts.append((i, f, mask(text)))
        return {"v": v, "nt": digest(case), "out": ("files", len(formats), nout, obs["verdict"]), "dg": texts}
    finally:
        shutil.rmtree(d, ignore_errors=True)


REGEX_STEPS = [
    # (pattern for the "re" matcher, step text) - argument spans: flat, adjacent, nested (inner at start / middle / end of
    # the outer group), nested twice, optional group not taking part, argument at the very start / end of the text
    (r"I buy (?P<count>\d+) (?P<fruit>\w+)", "I buy 3 apples"),
    (r"I buy (?P<a>\d)(?P<b>\d) things", "I buy 42 things"),
    (r"I buy (?P<item>(?P<count>\d+) (?P<fruit>\w+))", "I buy 3 apples"),
    (r"I buy (?P<item>(?P<count>\d+) \w+) now", "I buy 3 apples now"),
    (r"I buy (?P<item>\w+ (?P<fruit>\w+)) now", "I buy three apples now"),
    (r"I buy (?P<item>a (?P<mid>\w+) b)", "I buy a big b"),
    (r"(?P<all>I (?P<verb>\w+) (?P<rest>(?P<n>\d+) (?P<what>\w+)))", "I buy 3 apples"),
    (r"I buy (?P<count>\d+)(?: (?P<unit>kg))? of (?P<what>\w+)", "I buy 3 of apples"),
    (r"(?P<who>\w+) buys (?P<what>\w+)", "Alice buys apples"),
    (r"(\w+) sells (\w+)", "Bob sells pears"),
]


def regex_args_case(case):
    """steps bound by the regular-expression matcher with flat / adjacent / nested / optional groups: pretty assembles
    its step line from the argument spans - the line must still show the step exactly as the model (and plain) has it"""
    idxs, outcome = case
    import sys
    m = harness._imp()
    harness.reset_globals()
    config = m["Configuration"](["--no-summary", "--no-color"], load_config=False)
    reg = m["StepRegistry"]()
    m["matchers"].use_step_matcher("re")
    calls = []
    try:
        for k in idxs:
            pat, text = REGEX_STEPS[k]

            def impl(ctx, *a, **kw):
                calls.append(1)
                if outcome == "fail" and len(calls) == len(idxs):
                    assert False, "boom"
            reg.add_step_definition("step", pat, impl)
    finally:
        m["matchers"].use_step_matcher("parse")
    lines = ["Feature: R", "  Scenario: S"] + ["    Given %s" % REGEX_STEPS[k][1] for k in idxs]
    feats = [m["parse_feature"]("\n".join(lines) + "\n", filename="r.feature")]
    outs = {}
    from behave.formatter import _registry
    from behave.formatter.base import StreamOpener
    fmts = []
    for name in ("pretty", "plain", "json"):
        st = io.StringIO()
        outs[name] = st
        fmts.append(_registry.select_formatter_class(name)(StreamOpener(stream=st), config))
    runner = m["ModelRunner"](config, feats, step_registry=reg)
    runner.hooks = {}
    runner.formatters = fmts
    old = sys.stdout, sys.stderr
    sys.stdout, sys.stderr = io.StringIO(), io.StringIO()
    v = []
    try:
        try:
            runner.run()
        except BaseException as e:      # noqa
            v.append(({"subcheck": "regex-arguments", "clause": "exception-escapes-run", "exc": type(e).__name__},
                      "run() raised %r for steps %r" % (e, [REGEX_STEPS[k][1] for k in idxs])))
    finally:
        sys.stdout, sys.stderr = old
    if not v:
        steps = list(feats[0].scenarios[0].steps)
        pretty_lines = [l for l in outs["pretty"].getvalue().splitlines() if l.strip().startswith("Given ")]
        # pretty prints each step once in a non-tty stream; the text before the location comment is the step
        shown = [re.sub(r"\s+#.*$", "", l).strip() for l in pretty_lines]
        want = ["Given %s" % st_.name for st_ in steps]
        if shown != want:
            v.append(({"subcheck": "regex-arguments", "clause": "pretty-step-text",
                       "groups": "nested" if any("(?P<item>(" in REGEX_STEPS[k][0] or "(?P<all>" in REGEX_STEPS[k][0]
                                                   or "(?P<item>\\w+ (" in REGEX_STEPS[k][0] or "(?P<item>a (" in REGEX_STEPS[k][0]
                                                   for k in idxs) else "flat"},
                      "pretty shows %r, the model has %r" % (shown, want)))
        plain_lines = [l.strip() for l in outs["plain"].getvalue().splitlines() if l.strip().startswith("Given ")]
        shown_p = [re.sub(r" \.\.\. \w+( in [\d.]+s)?$", "", l) for l in plain_lines]
        if shown_p != want:
            v.append(({"subcheck": "regex-arguments", "clause": "plain-step-text"},
                      "plain shows %r, the model has %r" % (shown_p, want)))
        try:
            data = json.loads(outs["json"].getvalue())
            jnames = [s_["name"] for s_ in data[0]["elements"][0]["steps"]]
            if jnames != [st_.name for st_ in steps]:
                v.append(({"subcheck": "regex-arguments", "clause": "json-step-text"},
                          "json has %r, the model %r" % (jnames, [st_.name for st_ in steps])))
        except Exception as e:          # noqa
            v.append(({"subcheck": "regex-arguments", "clause": "invalid-json"}, "json does not parse: %r" % (e,)))
    return {"v": v, "nt": digest(case), "out": ("regex", len(idxs), outcome), "dg": mask(outs["pretty"].getvalue())}


def regex_args_cases(tier):
    n = len(REGEX_STEPS)
    for k in range(n):
        for outcome in ("pass", "fail"):
            yield ((k,), outcome)
    for a in range(n):
        for b in range(n):
            if a != b and (tier != "quick" or (a + b) % 3 == 0):
                yield ((a, b), "pass")


def fault_case(case):
    """a cleanup registered at feature / rule / scenario level raises when its layer ends, or one hook invocation
    raises: the statuses written by the JSON formatter (read at eof / scenario end) must be the FINAL ones of the
    model, and plain / progress must still show every processed step once"""
    prog, cleanups, faults = case
    cfg = dict(SWITCHES["default"])
    outs = {}

    def fm(config, o2p):
        from behave.formatter import _registry
        from behave.formatter.base import StreamOpener
        res = []
        for name in ("json", "plain", "progress3"):
            st = io.StringIO()
            outs[name] = st
            res.append(_registry.select_formatter_class(name)(StreamOpener(stream=st), config))
        return res
    obs = harness.run_case(prog, cfg, cleanups=cleanups, faults=faults, hooks=True, formatters=fm, keep_model=True)
    ref = refrun.predict(prog, cfg, cleanups=cleanups, faults=faults, hooks=True)
    v = []
    trig = "raising-cleanup" if cleanups else "hook-fault"
    if obs["escaped"]:
        v.append(({"subcheck": "run", "clause": "exception-escapes-run", "exc": obs["escaped"], "trigger": trig},
                  "run() raised %s: %s" % (obs["escaped"], obs.get("escaped_msg"))))
        return {"v": v, "dg": obs["escaped"], "out": "escaped"}
    feats, o2p, p2o, runner, config = obs["model"]
    v += check_json(outs["json"].getvalue(), "json", prog, ref, obs, True, (feats, o2p, p2o))
    for d, msg in v:
        d["trigger"] = trig
    return {"v": v, "nt": digest(case), "out": ("fault", trig, obs["verdict"]),
            "dg": (obs["verdict"], mask(outs["json"].getvalue()), mask(outs["plain"].getvalue()))}


def fault_cases(tier):
    from vlib import runcases
    quick = tier == "quick"
    progs = [
        (P.F((P.S(("pass", "pass")), P.R((P.S(("pass",)), P.O((("pass",), ("pass",)))), bg=("pass",))), bg=("pass",)),
         P.F((P.S(("pass",)),))),
        (P.F((P.O((("pass",),)), P.S(("pass", "fail")))), P.F((P.R((P.S(("pass",)),)),))),
    ]
    for prog in progs:
        for trig, layer in runcases.cleanup_sites((prog[0],)):
            yield (prog, {trig: [("c0", True, layer)]}, None)
        if not quick:
            n = runcases.hook_count(prog, {})
            for k in range(n):
                yield (prog, None, {k: "exc"})


def skipping_case(case):
    """user code EXCLUDES an element at run time (a hook calls feature.skip() / rule.skip() / scenario.skip() on the
    element it is called for, at the k-th hook invocation): whatever that does to the run, the event stream stays a
    well-formed bracket structure (uri feature ... eof per shown feature, scenario inside a feature, match/result
    after a step), the JSON document is valid and has one entry per feature() event with the steps announced for it,
    and plain prints every announced scenario"""
    prog, cfgname, k = case[:3]
    kind = case[3] if len(case) > 3 else "skip"     # "skip": the hook's own element, "skipf": the enclosing feature
    cfg = dict(SWITCHES[cfgname])
    holder = {}

    def fm(config, o2p):
        import io as _io
        from behave.formatter.base import StreamOpener
        from behave.formatter import _registry
        res = []
        for name in ("json", "plain"):
            st = _io.StringIO()
            holder[name] = st
            res.append(_registry.select_formatter_class(name)(StreamOpener(stream=st), config))
        return res
    obs = harness.run_case(prog, cfg, faults={k: kind}, hooks=True, record_events=True, formatters=fm)
    v = []
    hname = obs["hooks"][k][0] if k < len(obs["hooks"]) else "?"

    def bad(clause, msg):
        v.append(({"subcheck": "skip-by-hook", "clause": clause, "hook": hname, "switches": cfgname,
                   "skipped": "own-element" if kind == "skip" else "enclosing-feature"}, msg))
    if obs["escaped"]:
        bad("exception-escapes-run", "hook #%d (%s) skipped its element: run() raised %s: %s"
            % (k, hname, obs["escaped"], obs.get("escaped_msg")))
        return {"v": v, "dg": obs["escaped"], "out": "escaped"}
    ev = obs["events"]
    depth, open_feature, nfeat, announced = 0, None, 0, []
    for i, e in enumerate(ev):
        if e[0] == "feature":
            if open_feature is not None:
                bad("feature-without-eof", "feature %r announced at #%d while %r never got its eof" % (e[1], i, open_feature))
                break
            open_feature = e[1]
            nfeat += 1
        elif e[0] == "eof":
            if open_feature is None:
                bad("eof-without-feature", "eof at #%d without an open feature" % i)
                break
            open_feature = None
        elif e[0] in ("rule", "background", "scenario", "step", "match", "result") and open_feature is None:
            bad("event-outside-feature", "%r at #%d outside any feature" % (e, i))
            break
        if e[0] == "scenario":
            announced.append(e[1])
    else:
        if open_feature is not None:
            bad("feature-without-eof", "feature %r never got its eof (stream ends %r)" % (open_feature, ev[-3:]))
    if not v:
        try:
            data = json.loads(holder["json"].getvalue() or "[]")
        except Exception as e:          # noqa
            data = None
            bad("invalid-json", "JSON output does not parse: %r" % (e,))
        if data is not None and len(data) != nfeat:
            bad("json-feature-count", "JSON has %d features, %d feature() events were sent" % (len(data), nfeat))
        if data is not None:
            njs = sum(1 for f_ in data for el in f_.get("elements", []) if el.get("type") != "background")
            if njs != len(announced):
                bad("json-scenario-count", "JSON has %d scenario elements, %d scenario() events were sent" % (njs, len(announced)))
        nplain = len(re.findall(r"^\s*Scenario( Outline)?:", holder["plain"].getvalue(), re.M))
        if nplain != len(announced):
            bad("plain-scenario-count", "plain prints %d scenario headers, %d scenario() events were sent" % (nplain, len(announced)))
    return {"v": v, "nt": digest(case), "out": ("skip-by-hook", hname, cfgname, nfeat, len(announced)),
            "dg": (obs["verdict"], ev, mask(holder["plain"].getvalue()))}


def skipping_cases(tier):
    quick = tier == "quick"
    t = ("t",)
    progs = [
        (P.F((P.S(("pass", "pass")), P.S(("pass",), t), P.R((P.S(("pass",)), P.O((("pass",), ("pass",)))), bg=("pass",))), bg=("pass",)),
         P.F((P.S(("pass",)),))),
        (P.F((P.O2([((), (("pass",),)), (t, (("pass",),))]), P.S(("pass", "fail"))), tags=t),
         P.F((P.R((P.S(("pass",)),)),))),
    ]
    for prog in progs:
        base = refrun.predict(prog, {}, hooks=True).hooks
        for k, (name, ref_) in enumerate(base):
            if name in ("before_all", "after_all"):
                continue
            for cfgname in (("default", "tags_hide") if quick else ("default", "tags_hide", "tags_show", "stop", "cafs")):
                yield (prog, cfgname, k)
                yield (prog, cfgname, k, "skipf")


def files_cases(tier):
    quick = tier == "quick"
    progs = [p for i, p in enumerate(programs(tier)) if i % (23 if quick else 7) == 1]
    fmts = ("json", "plain", "progress3", "json.pretty", "progress2")
    for pr in progs:
        for n in (1, 2, 3):
            for formats in itertools.permutations(fmts[:4] if quick else fmts, n):
                for nout in range(0, n + 1):
                    if n == 3 and quick and nout not in (1, 2):
                        continue
                    yield (pr, "default", formats, nout)


def mask(text):
    text = re.sub(r"\d+\.\d+(e-?\d+)?s?", "T", text)
    text = re.sub(r'"duration": [\d.e-]+', '"duration": T', text)
    text = re.sub(r'line \d+, in ', 'line N, in ', text)
    return text


SWITCHES = {
    "default": {"extra": ["--no-color"]},
    "tags_hide": {"tags": "not t", "show_skipped": False, "extra": ["--no-color"]},
    "tags_show": {"tags": "not t", "show_skipped": True, "extra": ["--no-color"]},
    # positive selection: a feature may be selected ONLY through a tag on an examples block / inner scenario
    "tags_t_hide": {"tags": "t", "show_skipped": False, "extra": ["--no-color"]},
    "dry": {"dry": True, "extra": ["--no-color"]},
    "dry_tags_hide": {"dry": True, "tags": "not t", "show_skipped": False, "extra": ["--no-color"]},
    "plainish": {"extra": ["--no-color", "--no-timings", "--no-multiline"]},
    "color": {"extra": ["--color=always"]},
    "stop": {"stop": True, "extra": ["--no-color"]},
    # control-flow switch inside Scenario.run: results keep arriving after a failed step
    "cafs": {"cafs": True, "extra": ["--no-color"]},
}


def programs(tier):
    quick = tier == "quick"
    t = ("t",)
    bases = [
        P.F((P.S(("pass", "pass")), P.S(("pass",), t))),
        P.F((P.S(("pass", "pass"), t), P.O((("pass",), ("pass",)))), bg=("pass",)),
        P.F((P.O2([((), (("pass",),)), (t, (("pass",),))]), P.R((P.S(("pass", "pass")), P.S(("pass",), t)), bg=("pass",))), bg=("pass",)),
        P.F((P.R((P.S(("pass",)),), bg=("pass",)), P.R((P.O((("pass", "pass"),), ncols=2), P.S(("pass",))), tags=t))),
        P.F((P.S(("pass", "pass", "pass")),)),
        # selected ONLY through the tag of an examples block (nothing else in the feature / rule carries @t)
        P.F((P.O2([((), (("pass",),)), (t, (("pass",), ("pass",)))]), P.S(("pass",)))),
        P.F((P.S(("pass",)), P.R((P.O((("pass",), ("pass",)), extags=t),)))),
        # @wip (own and inherited): a pending step is accepted as pending_warn - a status whose name differs from
        # its normalized name, so a report that prints the normalized status no longer mirrors the model
        P.F((P.S(("pass", "pass"), ("wip",)), P.R((P.S(("pass", "pass")), P.O((("pass",),))), tags=("wip",)))),
        # background steps that carry a placeholder of the outlines below them: behave builds a rendered COPY of the
        # background steps per examples row (same location as the template step, different name)
        P.F((P.O((("pass",), ("pass",))), P.O((("pass",),), tags=t)), bg=("<o0>",)),
        P.F((P.S(("pass",)), P.R((P.O((("pass",), ("pass",))), P.O((("pass",),))), bg=("<o0>", "pass")))),
        P.F((P.O((("pass",),)), P.R((P.O((("pass",), ("pass",))),), bg=("<o0>",))), bg=("pass", "<o0>")),
    ]
    # "convert": a typed parameter whose converter raises - the step is matched WITH an error (no arguments extracted)
    outs = ("fail", "error", "pending", "undefined", "skip", "abort", "convert") if quick else P.NONPASS
    for b in bases:
        for nd, pr in P.deviations((b,), 1 if quick else 2, outcomes=outs, second=("undefined", "fail", "skip")):
            yield pr[0]


def lineups(tier, core=False):
    for f in FORMATTERS:
        yield (f,)
    for a, b in itertools.permutations(FORMATTERS, 2):
        yield (a, b)
    if core:
        for trio in itertools.permutations(("plain", "json", "progress3", "pretty", "rerun"), 3):
            yield trio


def cases(tier):
    quick = tier == "quick"
    progs = list(programs(tier))
    all_lineups = list(lineups(tier, core=True))
    # every program x the switch combinations x the single "all readers" line-up
    readers = ("json", "plain", "progress2", "progress3", "json.pretty", "pretty")
    for pi, pr in enumerate(progs):
        for cfgname in SWITCHES:
            yield (pr, cfgname, readers, ("table", "doc", None)[pi % 3])
    # every line-up x a core of programs (each with a deviation) x 2 switch combinations
    core = [p for i, p in enumerate(progs) if i % (17 if quick else 5) == 0]
    for lu in all_lineups:
        for pr in core:
            for cfgname in ("default", "dry_tags_hide") if quick else ("default", "dry_tags_hide", "tags_show", "stop"):
                yield (pr, cfgname, lu, None)


def run(ctx):
    ctx.bounds = {"formatters": len(FORMATTERS), "lineup_size": "1-2 all ordered; 3 over a 5-formatter core",
                  "deviations": 1 if ctx.quick else 2, "switch_combinations": len(SWITCHES)}
    ctx.sweep(run_case, cases(ctx.tier), chunk=24, name="programs x formatter line-ups x switches")
    ctx.sweep(regex_args_case, regex_args_cases(ctx.tier), chunk=8,
              name="steps bound by regular expressions with flat / nested / optional groups (argument spans)")
    ctx.sweep(fault_case, fault_cases(ctx.tier), chunk=8,
              name="raising cleanups at every level (thorough: every hook fault): JSON statuses are the final ones")
    ctx.sweep(skipping_case, skipping_cases(ctx.tier), chunk=16,
              name="a hook excludes its element at run time (skip()): event brackets, JSON and plain stay consistent")
    ctx.sweep(files_case, files_cases(ctx.tier), chunk=16, name="-f/-o pairs through Configuration and make_formatters")
    ctx.guard(len(ctx.outcomes) > 30, "at least 30 distinct outcome classes")
