# -*- coding: utf-8 -*-
"""C09 - tag selection with inheritance selects exactly the matching scenarios (E1)."""
import itertools
from vlib import prog as P, refrun, harness
from vlib.core import digest

PROPERTY = "C09"
LEVEL = "exploration"
RULE = ("Base trees covering every level (feature > scenario / outline with two examples blocks / rule > scenario, outline; "
        "feature and rule backgrounds) with one tag slot per level (feature, rule, scenario, outline, each examples block) and "
        "the parametrised outline tag @<tg> fed from the rows; every assignment of {none, t, u} to the slots with <= 2 (quick) "
        "/ <= 3 (thorough) non-empty slots x 14 tag expressions in both dialects {t, not t, u, t and u, t or u, not (t or u), "
        "t and not u, t*, -t, 't,u', and four forms with two --tags arguments (AND-ed)} x show_skipped on/off x dry-run on/off, all steps passing, plus one failing step in every "
        "scenario position in turn (default switches). Oracle: executed set (call log of step functions; scenario/step hooks) == "
        "set selected by an independent evaluator over effective tags; de-selected scenarios and all their steps skipped; "
        "containers skipped iff nothing in them is selected. Non-trivial = distinct case in which at least one scenario is "
        "selected and at least one is de-selected.")
ASSUMPTIONS = ["feature/rule hooks of a container whose own tags match but which contains no selected scenario are not checked (statement silent)"]

EXPRS = ("t", "not t", "u", "t and u", "t or u", "not (t or u)", "t and not u", "t*", "-t", "t,u",
         "t && not u", "t && -u", "t,u && -u", "t or u && not t",      # "x && y" = two --tags arguments
         "r<1>", "not r<1>",
         "~t", "-@t", "~@t", "@t,~@u",
         "[t]*", "not ?*", "[!u]")             # wildcard kinds combined / a character class as the only wildcard         # every spelling of an old-style negation: {-, ~} x optional @


def bases(tier):
    yield ("A", lambda g: P.F((P.S(("pass",), g("s")),
                               P.O2([(g("e1"), (("pass",),)), (g("e2"), (("pass",), ("pass",)))], tags=g("o")),
                               P.R((P.S(("pass",), g("rs")),), tags=g("r"))), tags=g("f")),
           ("f", "s", "o", "e1", "e2", "r", "rs"))
    yield ("B", lambda g: P.F((P.R((P.S(("pass",), g("rs")),
                                    P.O((("pass",), ("pass",)), tags=g("ro"), extags=g("re"))),
                                   tags=g("r"), bg=("pass",)),), tags=g("f"), bg=("pass",)),
           ("f", "r", "rs", "ro", "re"))
    yield ("C", lambda g: P.F((P.S(("pass", "pass"), g("s")), P.S(("pass",), g("s2")),
                               P.R((P.S(("pass",), g("rs")), P.S(("pass",), g("rs2"))), tags=g("r"))), tags=g("f")),
           ("f", "s", "s2", "r", "rs", "rs2"))


def ptag_programs():
    """parametrised outline tag @<tg>: rows supply t / u / x"""
    for vals in itertools.product(("t", "u", "x"), repeat=2):
        for ftag in ((), ("u",)):
            o = ("O", (P.PTAG,), 1, (((), (("pass", vals[0]), ("pass", vals[1]))),))
            yield P.F((o, P.S(("pass",))), tags=ftag)
            o2 = ("O", (P.PTAG, "t"), 1, (((), (("pass", vals[0]),)), (("u",), (("pass", vals[1]),))))
            yield P.F((P.R((o2,), tags=ftag),))
    # examples blocks with DIFFERENT headings: a block lacking the "tg" column before / after / between blocks that
    # have it - for its rows the parametrised tag is unresolvable and dropped; values must not travel between blocks
    for v1, v2 in itertools.product(("t", "u"), repeat=2):
        for order in ("with,without", "without,with", "with,without,with"):
            blocks = []
            vals = iter((v1, v2))
            for kind in order.split(","):
                blocks.append(((), (("pass", next(vals)), ("pass", "x")) if kind == "with" else (("pass",), ("pass",))))
            yield P.F((("O", (P.PTAG,), 1, tuple(blocks)), P.S(("pass",))))
            yield P.F((P.R((("O", (P.PTAG, "x"), 1, tuple(blocks)),), tags=("u",)),))


def programs(tier):
    quick = tier == "quick"
    maxne = 2 if quick else 3
    for name, mk, slots in bases(tier):
        for n in range(0, maxne + 1):
            for chosen in itertools.combinations(slots, n):
                for vals in itertools.product(("t", "u"), repeat=n):
                    asg = dict(zip(chosen, vals))
                    yield mk(lambda s: (asg[s],) if s in asg else ()), n
    for p in ptag_programs():
        yield p, 1
    # tags whose text looks like a placeholder ('r<1>') on every level in turn: only the OUTLINE's own tags are templates
    for name, mk, slots in bases(tier):
        for slot in slots:
            if slot in ("o", "ro"):
                continue        # the outline's own tags are templates (a tag with an unknown placeholder is dropped: C06)
            yield mk(lambda s_, slot=slot: ("r<1>",) if s_ == slot else ()), 1
            yield mk(lambda s_, slot=slot: ("r<1>",) if s_ == slot else (("t",) if s_ == slots[-1] else ())), 2


def run_case(case):
    feat, expr, show_skipped, dry, dev = case[:5]
    devkind = case[5] if len(case) > 5 else "fail"
    prog = (feat,)
    if dev is not None:
        prog = P.set_outcome(prog, dev, devkind)
    cfg = {"tags": expr, "show_skipped": bool(show_skipped)}
    if dry:
        cfg["dry"] = True
    obs = harness.run_case(prog, cfg, hooks=True)
    ref = refrun.predict(prog, cfg, hooks=True)
    v = refrun.compare(prog, ref, obs, what=("verdict", "status", "steps", "calls", "hooks"))
    sel = [p for p, (k, i) in ref.info.items() if ref.selected(i["tags"])]
    desel = [p for p, (k, i) in ref.info.items() if not ref.selected(i["tags"])]
    if not obs["escaped"]:
        executed = set(p for p, sid in obs["calls"])
        # selected scenarios whose step functions the reference run calls (a selected scenario that starts with an
        # undefined step calls none)
        sel_called = set(p for p, sid in ref.calls)
        if not dry and executed != sel_called:
            v.append(({"subcheck": "selection", "clause": "executed-set", "dialect": "v1" if ("-" in expr or "," in expr) else "v2",
                       "kind": "extra" if executed - set(sel) else "missing"},
                      "expression %r: executed %r, selected by the formula %r" % (expr, sorted(executed), sorted(sel))))
        for name, r in obs["hooks"]:
            tgt = r[0] if "step" in name else r
            if tgt in desel:
                v.append(({"subcheck": "selection", "clause": "hook-for-deselected", "hook": name},
                          "hook %s called for de-selected scenario %r under %r" % (name, tgt, expr)))
                break
        for p in desel:
            if obs["status"].get(p) != "skipped" or any(s != "skipped" for s in obs["steps"].get(p, ())):
                v.append(({"subcheck": "selection", "clause": "deselected-not-skipped", "dry": str(bool(dry))},
                          "de-selected scenario %r: status %s steps %s" % (p, obs["status"].get(p), obs["steps"].get(p))))
                break
        for path, kind in P.element_paths(prog):
            if kind in ("F", "R", "O"):
                inside = [p for p in ref.info if p[:len(path)] == path]
                anysel = any(p in sel for p in inside)
                st = obs["status"][path]
                if inside and not anysel and st != "skipped":
                    v.append(({"subcheck": "selection", "clause": "container-not-skipped", "kind": kind, "got": st},
                              "%s %r contains no selected scenario but is %s" % (kind, path, st)))
                if anysel and st == "skipped":
                    v.append(({"subcheck": "selection", "clause": "container-skipped-despite-selected", "kind": kind},
                              "%s %r contains a selected scenario but is skipped" % (kind, path)))
    nt = digest(case) if sel and desel else None
    return {"v": v, "nt": nt, "out": (expr, len(sel), len(desel), bool(dry), obs["verdict"]),
            "dg": (obs["verdict"], obs["calls"], sorted(obs["status"].items()), obs["hooks"])}


def titleonly_case(case):
    """title-only scenarios (no own steps, NO background): a de-selected one must be reported skipped, gets no hook,
    and a container without any selected scenario is skipped; what a SELECTED childless scenario ends as is not stated
    (only the de-selected side and the containers are judged)"""
    feat, expr, show_skipped, dry = case
    prog = (feat,)
    cfg = {"tags": expr, "show_skipped": bool(show_skipped)}
    if dry:
        cfg["dry"] = True
    obs = harness.run_case(prog, cfg, hooks=True)
    ref = refrun.Ref(prog, cfg, hooks=True)
    v = []
    sel = [p for p, (k, i) in ref.info.items() if ref.selected(i["tags"])]
    desel = [p for p, (k, i) in ref.info.items() if not ref.selected(i["tags"])]
    if obs["escaped"]:
        v.append(({"subcheck": "selection", "clause": "exception-escapes-run", "exc": obs["escaped"], "shape": "title-only"},
                  "run() raised %s: %s" % (obs["escaped"], obs.get("escaped_msg"))))
    else:
        for p in desel:
            if obs["status"].get(p) != "skipped" or any(s_ != "skipped" for s_ in obs["steps"].get(p, ())):
                v.append(({"subcheck": "selection", "clause": "deselected-not-skipped", "dry": str(bool(dry)),
                           "shape": "title-only" if not ref.info[p][1]["steps"] else "with-steps"},
                          "de-selected scenario %r (steps %r): status %s under %r"
                          % (p, obs["steps"].get(p), obs["status"].get(p), expr)))
                break
        for name, r in obs["hooks"]:
            tgt = r[0] if "step" in name else r
            if tgt in desel:
                v.append(({"subcheck": "selection", "clause": "hook-for-deselected", "hook": name, "shape": "title-only"},
                          "hook %s called for de-selected scenario %r under %r" % (name, tgt, expr)))
                break
        for path, kind in P.element_paths(prog):
            if kind in ("F", "R"):
                inside = [q for q in ref.info if q[:len(path)] == path]
                if inside and not any(q in sel for q in inside) and obs["status"][path] != "skipped":
                    v.append(({"subcheck": "selection", "clause": "container-not-skipped", "kind": kind,
                               "got": obs["status"][path], "shape": "title-only"},
                              "%s %r contains no selected scenario but is %s (children %r)"
                              % (kind, path, obs["status"][path], [obs["status"].get(q) for q in inside])))
    return {"v": v, "nt": digest(case) if desel else None, "out": ("title-only", expr, len(sel), len(desel), bool(dry)),
            "dg": (obs["verdict"], sorted(obs["status"].items()), obs["hooks"])}


def titleonly_cases(tier):
    e = P.S(())
    for tags in itertools.product(((), ("t",), ("u",)), repeat=3):
        s1, s2, rs = tags
        feats = [P.F((P.S((), s1), P.S((), s2))),
                 P.F((P.S((), s1), P.S(("pass",), s2), P.R((P.S((), rs),)))),
                 P.F((P.S(("pass",), s1), P.R((P.S((), s2), P.S((), rs)), tags=("u",))), tags=("x",))]
        for f in feats:
            for expr in ("t", "not t", "t and not u", "u"):
                for show, dry in ((1, 0), (0, 0), (1, 1)):
                    yield (f, expr, show, dry)


def history_case(case):
    """the SAME parsed model is run twice with different tag expressions (no reset in between): the second run must
    select by the expression then in force only"""
    feat, expr1, expr2, reset = case
    prog = (feat,)
    cfg2 = {"tags": expr2}
    obs = harness.run_case(prog, {"tags": expr1}, hooks=True, second_run=True, second_cfg=cfg2, reset_between=bool(reset))
    ref = refrun.predict(prog, cfg2, hooks=True)
    v = refrun.compare(prog, ref, obs, what=("verdict", "status", "steps", "calls", "hooks"))
    for d, msg in v:
        d["history"] = "second-run-other-expression" + ("" if reset else "-no-reset")
    sel = [p for p, (k, i) in ref.info.items() if ref.selected(i["tags"])]
    return {"v": v, "nt": digest(case) if sel and len(sel) < len(ref.info) else None, "out": ("history", expr1, expr2, len(sel)),
            "dg": (obs["verdict"], obs["calls"], sorted(obs["status"].items()))}


def history_cases(tier):
    exprs = ("t", "not t", "u", "t or u", "-t") if tier == "quick" else EXPRS[:10]
    for feat, nslots in programs(tier):
        if nslots != 2 and tier == "quick":
            continue
        for e1, e2 in itertools.permutations(exprs, 2):
            for reset in (0, 1):
                yield (feat, e1, e2, reset)


def cases(tier):
    quick = tier == "quick"
    for feat, nslots in programs(tier):
        for expr in EXPRS:
            for show_skipped, dry in ((1, 0), (0, 0), (1, 1), (0, 1)):
                yield (feat, expr, show_skipped, dry, None)
        # one failing step in a selected/de-selected scenario (default switches)
        if quick and nslots > 1:
            continue        # quick: the failing-step deviation only on programs with <= 1 tagged element
        for pos in P.positions((feat,)):
            if pos[1] == "bg":
                continue
            for expr in (("t", "not t", "t or u") if quick else EXPRS):
                yield (feat, expr, 1, 0, pos)
                # an UNDEFINED step in a selected / de-selected scenario, also in dry-run (undefined-step discovery
                # must not reach into de-selected scenarios) and with skipped scenarios hidden
                yield (feat, expr, 1, 1, pos, "undefined")
                yield (feat, expr, 0, 0, pos, "undefined")
                if not quick:
                    yield (feat, expr, 0, 1, pos, "undefined")
                    yield (feat, expr, 1, 0, pos, "pending")


def run(ctx):
    ctx.bounds = {"nonempty_tag_slots": 2 if ctx.quick else 3, "expressions": len(EXPRS), "switch_combinations": 4,
                  "deviations": "one failing / undefined (also under --dry-run) / pending step at every step position"}
    ctx.sweep(run_case, cases(ctx.tier), chunk=48, name="tagged programs x expressions x switches")
    ctx.sweep(titleonly_case, titleonly_cases(ctx.tier), chunk=32,
              name="title-only scenarios (no steps, no background), tagged on every level")
    ctx.sweep(history_case, history_cases(ctx.tier), chunk=48, name="same model run twice with different expressions")
    ctx.guard(len(ctx.nt) > 2000, "at least 2000 distinct cases with both selected and de-selected scenarios")
