# -*- coding: utf-8 -*-
"""C20 - configuration precedence (command line > config file > defaults); userdata.

Engine E4: the option table ``behave.configuration.OPTIONS`` is read at run time;
every file-configurable option gets two legal values generated from its *kind*
(bool, choice, int, log level, enum, text, list) and is placed nowhere / in a
config file / on the command line / in both with different values, for every
command-line spelling, every config-file name and both directories behave
consults.  Pairs (and core triples, and "everything at once") of options are
placed independently.  Every case builds a real ``Configuration`` in its own
scratch directory under /dev/shm and the *complete* option vector is compared
with a small reference model written from the property statement and the docs
(docs/behave.rst "Configuration Files", features/runner.multiple_formatters.feature
for the documented format/outfiles coupling, docs/new_and_noteworthy_v1.2.5.rst
and the parse_user_define docstring for userdata).
"""
import os, re, sys, io, copy, shutil, tempfile, itertools, json, logging, collections
from vlib.core import digest

PROPERTY = "C20"
LEVEL = "exploration"
RULE = ("Options = every entry of behave.configuration.OPTIONS that has a positive (non --no-) form and is not an "
        "informational/-D option, grouped by dest (38 in this tree, derived at run time); two legal values per option "
        "generated from its kind. Sweeps: (1) each option alone: placement in {file, command line, both with different "
        "values} x every command-line spelling (every option string, '--opt v' and '--opt=v', --no- twins, bare optional "
        "value, first and last on the line) x file names {behave.ini, .behaverc, setup.cfg, tox.ini, pyproject.toml} x "
        "directory {cwd, HOME} x both value orders (a --no-X switch is paired with --X / --show-X by NAME, not by the "
        "dest the table gives it); every documented ini boolean spelling; (2) pairs of options each "
        "placed in {file, cmd, both} (quick: a 10-option core; thorough: all pairs) x {ini, toml} x {cwd, HOME} x value "
        "swap, thorough also triples of the core; the full product 'every subset in the file x every subset on the "
        "command line' over 5 (thorough 7) options; all options at once; two config files (same/different directory, "
        "disjoint/conflicting options, userdata); (3) relative/absolute paths and outfiles in config files x 4 "
        "cwd/HOME layouts x file format/outfiles coupling (#formats 0..3 x #outfiles 0..3, all combinations) x every file "
        "name x command-line formats/outfiles, the same grid through read_configuration(path) for a file in a third "
        "directory (relative and absolute path); every outfile of a config file, named or derived '<format>.output', "
        "must lie in that file's directory and Configuration.outputs[i] must pair with formatter i; (4) -D strings: name x "
        "{bare, '=', ' = '} x value alphabet x whole-string quoting x outer padding x 4 spellings of -D, userdata in "
        "file (ini/toml, cwd/HOME) x subsets of -D overrides; (5) UserData getters x values x default given/not, direct "
        "and through Configuration; (5b) every userdata name behave itself consumes while the Configuration is "
        "constructed (summary/junit reporter settings; the steps.missing formatter via make_formatters) x {absent, "
        "file, -D, both with different values, two config files, two files + -D} x {--junit, junit in file, off} x "
        "{summary on, off}: the attribute of the constructed reporter/formatter object must follow the precedence "
        "rule, config.reporters must contain exactly the enabled reporters, update_userdata() keeps -D on top; "
        "(5c) names are case-sensitive and preserved exactly: families Mixed/UPPER/lower of one userdata name (ASCII "
        "and Cyrillic), names with '.', '-', '_' (and ':' in TOML/-D), formatter and runner alias families, in every "
        "file format x {file only (one spelling / all spellings together), -D only, file x -D 3x3, two files 3x3} "
        "(thorough: x ini delimiters '=', ' = ', tab, ':'); -D overrides the same spelling only, getint finds the "
        "exact spelling, -f/-r accept the alias as spelled; (5d) non-ASCII text (Latin-1 range, cp1252-only signs, Cyrillic, CJK) in "
        "every text/list option a file can carry and in userdata names/values, ini and toml, cwd/HOME/third directory, "
        "crossed with what sys.stdout is while the configuration is read {harness StringIO, the real stdout, "
        "TextIOWrapper latin-1/cp1252/ascii/utf-8, object without encoding}: values arrive as written (files are "
        "UTF-8), ini == toml, none of it depends on stdout; also command-line text and -D with non-ASCII text; "
        "(5e) library use: Configuration(args, load_config, userdata=<none | "
        "dict | UserData | UserData with a UserDataNamespace view taken before>) x every subset of -D {override, new "
        "name, bare flag, namespaced name} x config file {ignored, absent, cwd with/without userdata, HOME}, and "
        "assigning config.userdata/config.userdata_defines then calling setup_userdata() again: -D wins, getint/"
        "getbool and a namespace view of config.userdata see the effective values; "
        "(6) ordered pairs of build specs: Configuration A then B in one process without "
        "reset, B must equal a fresh B. In every build ALL options are compared (mentioned ones with the precedence "
        "rule, all others with the documented default), except options rewritten by an active documented mode switch "
        "(--wip, --quiet, --steps-catalog, --junit). A case is non-trivial (distinct by sweep, options, placement, "
        "spelling, file kind and directory) when the winning level's value differs from the value the next lower level "
        "would give, so that a wrong precedence is observable.")
ASSUMPTIONS = [
    "two values per option; text values are drawn from a harmless alphabet (no '%', no leading '-' or '@file')",
    "only the two config directories of config_filenames() on posix (cwd, HOME); APPDATA (Windows) not covered",
    "precedence BETWEEN two config files that assign the same option is not stated: either value is accepted",
    "append options given in file and on the command line: 'file values then command-line values' and 'command-line "
    "values only' are both accepted (format: only the former, it is documented); tags: command line replaces file",
    "sections [behave.formatters]/[behave.runners]: only the alias names (exact, case-sensitive) are checked; "
    "argparse prefix abbreviations are not covered",
    "subsets larger than 3 options are covered only by the all-options-at-once cases",
    "whether an already constructed reporter follows config.update_userdata() is not stated: observed, not judged",
    "config files are UTF-8 on disk and the process runs with a UTF-8 locale/utf8 mode; other locales not varied",
    "command-line arguments are passed as a list of text (no byte decoding, no shlex); the string/bytes forms of "
    "command_args, whose decoding may legitimately use the stream encoding in make_command_args, are not covered",
    "environment-variable sources (BEHAVE_STAGE, BEHAVE_COLOR) are not part of the precedence sweep",
    "userdata handed over as a Configuration(...) default vs the same name in a config file: either value accepted "
    "(not stated); a UserDataNamespace view taken BEFORE the construction is observed, not judged",
]

ABSENT = "<absent>"
S_TOKEN = "/<S>"      # stands for the scratch root in every observation (keeps absolute paths absolute)
NONFILE = ("tags_help", "lang_list", "lang_help", "version", "userdata_defines")
INI_NAMES = ("behave.ini", ".behaverc", "setup.cfg", "tox.ini")
TOML_NAME = "pyproject.toml"
FILE_NAMES = INI_NAMES + (TOML_NAME,)
LAYOUTS = {            # name -> (cwd, HOME) relative to the scratch root ("t/": a '..' never leaves the root)
    "sibling": ("t/work", "t/home"),
    "parent": ("t/work", "t"),
    "child": ("t/work", "t/work/sub"),
    "deep": ("t/a/b/work", "t/home/x"),
    "same": ("t/work", "t/work"),
}
BOOL_TRUE = ("true", "1", "yes", "on")
BOOL_FALSE = ("false", "0", "no", "off")

# defaults as documented (docs/behave.rst, OPTIONS help texts); None == "not set / empty"
DOC_DEFAULTS = {
    "color": "auto", "dry_run": False, "exclude_re": None, "include_re": None, "junit": False,
    "junit_directory": "reports", "jobs": 1, "default_format": "pretty", "format": None, "steps_catalog": False,
    "scenario_outline_annotation_schema": "{name} -- @{row.id} {examples.name}", "show_skipped": True,
    "show_snippets": True, "show_multiline": True, "name": None, "stdout_capture": True, "stderr_capture": True,
    "log_capture": True, "logging_level": logging.INFO, "logging_format": "%(levelname)s:%(name)s:%(message)s",
    "logging_datefmt": None, "logging_filter": None, "logging_clear_handlers": False, "summary": True,
    "outfiles": None, "paths": None, "tag_expression_protocol": "auto_detect", "quiet": False,
    "runner": "behave.runner:Runner", "show_source": True, "stage": None, "stop": False, "default_tags": None,
    "tags": None, "show_timings": True, "verbose": False, "wip": False, "lang": None,
}
# documented mode switches and the options they rewrite (never compared while the switch is on)
REWRITES = {
    "wip": ("default_format", "color", "stop", "log_capture", "stdout_capture", "tags"),
    "steps_catalog": ("default_format", "format", "dry_run", "summary", "show_skipped", "quiet", "show_source",
                      "show_snippets"),
    "quiet": ("show_source", "show_snippets"),
    "junit": ("stdout_capture", "stderr_capture", "log_capture"),
}
TEXT_VALUES = {
    "exclude_re": ("alpha.*x", "beta[0-9]+"),
    "include_re": ("gamma.*y", "delta[a-c]"),
    "junit_directory": ("build/junit-a", "rep_b"),
    "default_format": ("plain", "progress"),
    "scenario_outline_annotation_schema": ("{name} A-{row.id}", "{name} -- B {row.index}"),
    "logging_format": ("%(levelname)s-A:%(message)s", "B %(name)s %(message)s"),
    "logging_datefmt": ("%H:%M:%S", "%Y-%m-%d"),
    "logging_filter": ("foo,-bar", "baz"),
    "runner": ("pkg_a.mod:RunnerA", "pkg_b:RunnerB"),
    "stage": ("develop", "product"),
    "lang": ("de", "fr"),
}
LIST_VALUES = {
    "format": (("plain", "json"), ("progress",)),
    "name": (("alpha", "beta two"), ("gamma",)),
    "tags": (("@a", "@b"), ("@c",)),
    "default_tags": (("@d1", "@d2"), ("@d3",)),
    "outfiles": (("out/a1.txt", "a2.txt"), ("b1.txt",)),
    "paths": (("features/a1", "feat_a2/x.feature"), ("other/b1",)),
}
LEVEL_VALUES = (("DEBUG", 10), ("ERROR", 40))
SUBSET_QUICK = ("summary", "dry_run", "jobs", "color", "format")
SUBSET_FULL = SUBSET_QUICK + ("stage", "tags")
CORE10 = ("summary", "show_timings", "dry_run", "jobs", "logging_level", "color", "stage", "format", "outfiles", "tags")

_FOREIGN = re.compile(r"/dev/shm/c20-[A-Za-z0-9_-]+")
RUN_TAG = None       # pid of the driver: scratch directories of this run are /dev/shm/c20-<RUN_TAG>-*
UNPAIRED = []
OPTS = None          # dest -> option record, derived from the real OPTIONS table
DESTS = None
_SNAP = {}


# =============================================================== option table
def derive_options():
    """group the real OPTIONS table by dest; own rule for 'file-configurable'"""
    from behave import configuration as C
    groups = collections.OrderedDict()
    negatives = []
    for fixed, kw in C.OPTIONS:
        action = kw.get("action", "store")
        if action in ("store_false", "store_const") or any(w.startswith("--no-") for w in fixed):
            negatives.append((fixed, kw, action))
            continue
        dest = kw.get("dest")
        if not dest:
            for w in fixed:
                if w.startswith("--"):
                    dest = w[2:].replace("-", "_")
                    break
        if not dest:
            continue
        g = groups.setdefault(dest, {"dest": dest, "pos": [], "neg": [], "neg_value": None, "has_pos": False,
                                     "action": None, "kw": None})
        g["pos"] += list(fixed)
        g["has_pos"] = True
        g["action"] = action
        g["kw"] = kw
    # a "--no-X" switch is the negation of the option spelled "--X" or "--show-X": paired BY NAME (the meaning the
    # user reads), not by the dest the table happens to give it - a twin wired to the wrong dest must be flagged
    for fixed, kw, action in negatives:
        stems = [w[5:] for w in fixed if w.startswith("--no-")]
        owner = None
        for g in groups.values():
            if any(("--" + st) in g["pos"] or ("--show-" + st) in g["pos"] for st in stems):
                owner = g
                break
        if owner is None:
            UNPAIRED.append(fixed)
            continue
        owner["neg"] += list(fixed)
        owner["neg_value"] = False if owner["action"] == "store_true" else kw.get("const")
    opts = collections.OrderedDict()
    for dest, g in groups.items():
        if not g["has_pos"] or dest in NONFILE:
            continue
        kw = g.pop("kw")
        action = g["action"]
        tname = getattr(kw.get("type"), "__name__", None)
        choices = list(kw.get("choices") or ())
        if action == "store_true":
            kind, values = "bool", (True, False)
        elif action == "append":
            kind = "list"
            values = LIST_VALUES.get(dest, (("A1." + dest, "A2 " + dest), ("B1-" + dest,)))
        elif action == "store" and choices:
            dflt = kw.get("default")
            cand = [c for c in choices if c != dflt and c != DOC_DEFAULTS.get(dest)]
            values = tuple(cand[:2])
            kind = "enum" if tname else "choice"
        elif action == "store" and tname == "positive_number":
            kind, values = "int", ("2", "3")
        elif action == "store" and tname == "parse_type":
            kind, values = "level", tuple(n for n, _ in LEVEL_VALUES)
        elif action == "store" and tname is None:
            kind, values = "text", TEXT_VALUES.get(dest, ("A." + dest, "B-" + dest))
        else:
            kind, values = "unknown", ()
        g.update(kind=kind, values=values, positional=(dest == "paths" and not g["pos"]),
                 bare=(kw.get("nargs") == "?"), const=kw.get("const"), pathlike=dest in ("paths", "outfiles"))
        opts[dest] = g
    return opts


def init_worker():
    global OPTS, DESTS, RUN_TAG
    if OPTS is not None:
        return
    RUN_TAG = str(os.getpid())
    from behave.configuration import Configuration
    from behave.model import ScenarioOutline, Scenario
    from behave.tag_expression import TagExpressionProtocol
    OPTS = derive_options()
    DESTS = list(OPTS)
    _SNAP["defaults"] = copy.deepcopy(Configuration.defaults)
    _SNAP["schema"] = ScenarioOutline.annotation_schema
    _SNAP["cafs"] = Scenario.continue_after_failed_step
    _SNAP["tep"] = TagExpressionProtocol.current()      # public API only
    root = logging.getLogger()
    _SNAP["log"] = (list(root.handlers), root.level)
    _SNAP["env"] = {k: os.environ.get(k) for k in ("HOME", "BEHAVE_STAGE", "BEHAVE_COLOR", "APPDATA")}
    _SNAP["cwd"] = os.getcwd()
    _SNAP["stdout"] = sys.stdout
    from behave.formatter import _registry as _freg
    _SNAP["formatters"] = set(dict.keys(_freg._formatter_registry))


def reset_state():
    from behave.configuration import Configuration
    from behave.model import ScenarioOutline, Scenario
    from behave.tag_expression import TagExpressionProtocol
    Configuration.defaults = copy.deepcopy(_SNAP["defaults"])
    ScenarioOutline.annotation_schema = _SNAP["schema"]
    Scenario.continue_after_failed_step = _SNAP["cafs"]
    TagExpressionProtocol.use(_SNAP["tep"])
    from behave.formatter import _registry as _freg
    for k in [k for k in dict.keys(_freg._formatter_registry) if k not in _SNAP["formatters"]]:
        dict.pop(_freg._formatter_registry, k, None)       # aliases registered by [behave.formatters]
    root = logging.getLogger()
    root.handlers[:] = _SNAP["log"][0]
    root.setLevel(_SNAP["log"][1])
    for k in ("BEHAVE_STAGE", "BEHAVE_COLOR", "APPDATA"):
        os.environ.pop(k, None)


# =============================================================== rendering
def ini_value(opt, val, boolsp=0):
    if opt["kind"] == "bool":
        return (BOOL_TRUE if val else BOOL_FALSE)[boolsp]
    if opt["kind"] == "list":
        return "\n    ".join(val)
    return val


def toml_value(opt, val):
    if opt["kind"] == "bool":
        return "true" if val else "false"
    if opt["kind"] == "list":
        return "[" + ", ".join(json.dumps(v) for v in val) + "]"
    if opt["kind"] == "int":
        return str(int(val))            # native TOML integer
    return json.dumps(val)              # a JSON string is a valid TOML basic string (ASCII alphabet)


def render_file(fspec):
    name = fspec["name"]
    opts, ud = fspec.get("opts", ()), fspec.get("ud")
    if name == TOML_NAME:
        lines = ["[project]", 'name = "x"', ""]
        if opts or ud is None:
            lines.append("[tool.behave]")
        for dest, val in opts:
            lines.append("%s = %s" % (dest, toml_value(OPTS[dest], val)))
        if ud is not None:
            lines += ["", "[tool.behave.userdata]"]
            for k, v in ud:
                lines.append("%s = %s" % (json.dumps(k), json.dumps(v)))
        for sect, key in (("formatters", "fa"), ("runners", "ra")):
            if fspec.get(key):
                lines += ["", "[tool.behave.%s]" % sect]
                for k, v in fspec[key]:
                    lines.append("%s = %s" % (json.dumps(k), json.dumps(v)))
    else:
        lines = []
        if name in ("setup.cfg", "tox.ini"):
            lines += ["[metadata]", "name = x", ""]
        lines.append("[behave]")
        for dest, val in opts:
            lines.append("%s = %s" % (dest, ini_value(OPTS[dest], val, fspec.get("boolsp", 0))))
        sep = fspec.get("sep", " = ")
        if ud is not None:
            lines += ["", "[behave.userdata]"]
            for k, v in ud:
                lines.append("%s%s%s" % (k, sep, v))
        for sect, key in (("formatters", "fa"), ("runners", "ra")):
            if fspec.get(key):
                lines += ["", "[behave.%s]" % sect]
                for k, v in fspec[key]:
                    lines.append("%s%s%s" % (k, sep, v))
    return "\n".join(lines) + "\n"


def cmd_spellings(dest, val):
    """all command-line spellings that express value `val` of option `dest` (list of spelling tuples)"""
    opt = OPTS[dest]
    out = []
    if opt["positional"]:
        return [("positional",)]
    if opt["kind"] == "bool":
        words = opt["pos"] if val else opt["neg"]
        return [("flag", w) for w in words]
    for w in opt["pos"]:
        out.append(("sep", w))
        if w.startswith("--"):
            out.append(("eq", w))
        elif opt["kind"] != "list":
            out.append(("glued", w))
    if opt["kind"] != "list":
        if opt["neg"] and val == opt["neg_value"]:
            out += [("flag", w) for w in opt["neg"]]
        if opt["bare"] and val == opt["const"]:
            out += [("flag", w) for w in opt["pos"] if w.startswith("--")]
    return out


def render_cmd(cmd, ud_cmd=()):
    args, tail = [], []
    for dest, val, sp in cmd:
        vals = val if OPTS[dest]["kind"] == "list" else (val,)
        if sp[0] == "positional":
            tail += list(vals)
        elif sp[0] == "flag":
            args.append(sp[1])
        else:
            for v in vals:
                if sp[0] == "sep":
                    args += [sp[1], v]
                elif sp[0] == "eq":
                    args.append("%s=%s" % (sp[1], v))
                else:
                    args.append(sp[1] + v)
    for form, text in ud_cmd:
        if form == "sep":
            args += ["-D", text]
        elif form == "long":
            args += ["--define", text]
        elif form == "eq":
            args.append("--define=" + text)
        else:
            args.append("-D" + text)
    return args + tail


# =============================================================== real build
class Scratch(object):
    def __init__(self, layout):
        self.root = tempfile.mkdtemp(prefix="c20-%s-" % RUN_TAG, dir="/dev/shm")
        cwd, home = LAYOUTS[layout]
        self.cwd = os.path.normpath(os.path.join(self.root, cwd))
        self.home = os.path.normpath(os.path.join(self.root, home))
        os.makedirs(self.cwd, exist_ok=True)
        os.makedirs(self.home, exist_ok=True)

    def dir_of(self, where):
        return self.cwd if where == "cwd" else self.home

    def close(self):
        shutil.rmtree(self.root, ignore_errors=True)


STDOUT_KINDS = (None, "real", "latin-1", "cp1252", "ascii", "utf-8", "noenc")


class NoEncStream(object):
    """an output stream without an `encoding` attribute"""
    def __init__(self):
        self.parts = []

    def write(self, text):
        self.parts.append(text if isinstance(text, str) else text.decode("utf-8", "replace"))

    def flush(self):
        pass


def make_stdout(kind):
    """what sys.stdout is while behave reads its configuration (must not influence what is read)"""
    if kind is None:
        return io.StringIO()
    if kind == "real":
        return _SNAP["stdout"]
    if kind == "noenc":
        return NoEncStream()
    return io.TextIOWrapper(io.BytesIO(), encoding=kind, errors="backslashreplace", write_through=True)


def stdout_text(stream):
    if isinstance(stream, io.StringIO):
        return stream.getvalue()
    if isinstance(stream, NoEncStream):
        return "".join(stream.parts)
    if isinstance(stream, io.TextIOWrapper) and isinstance(stream.buffer, io.BytesIO):
        return stream.buffer.getvalue().decode(stream.encoding, "replace")
    return ""


def stdout_class(so):
    return "harness-StringIO" if so is None else ("real" if so == "real" else "no-encoding-attr" if so == "noenc"
                                                  else "encoding=" + so)


def norm_value(v, root):
    import re as _re
    import enum
    if isinstance(v, enum.Enum):
        return v.name.lower()
    if isinstance(v, _re.Pattern):
        return v.pattern
    if isinstance(v, (list, tuple)):
        return tuple(norm_value(x, root) for x in v)
    if isinstance(v, dict):
        return tuple(sorted((norm_value(k, root), norm_value(x, root)) for k, x in v.items()))
    if isinstance(v, str):
        # own scratch root -> token; a root of ANOTHER build (leaked state) -> its own token, never the random name
        return _FOREIGN.sub("/<OTHER-S>", v.replace(root, S_TOKEN))
    if isinstance(v, (bool, int, float)) or v is None:
        return v
    return "<%s>" % type(v).__name__


def build(spec):
    """render spec into a fresh scratch tree, build one real Configuration, return the normalised observation"""
    from behave.configuration import Configuration
    from behave.model import ScenarioOutline
    from behave.tag_expression import TagExpressionProtocol
    sc = Scratch(spec.get("layout", "sibling"))
    old_out, old_err = sys.stdout, sys.stderr
    obs = {}
    try:
        for f in spec.get("files", ()):
            with open(os.path.join(sc.dir_of(f["where"]), f["name"]), "w", encoding="utf-8") as fh:
                fh.write(render_file(f))
        args = render_cmd(spec.get("cmd", ()), spec.get("ud_cmd", ()))
        obs["args"] = tuple(args)
        os.chdir(sc.cwd)
        os.environ["HOME"] = sc.home
        sys.stdout, sys.stderr = make_stdout(spec.get("stdout")), io.StringIO()
        kwargs = {}
        if "load_config" in spec:
            kwargs["load_config"] = spec["load_config"]
        if spec.get("handover") is not None:
            obs["handed"], obs["preview"] = make_handover(spec["handover"])
            if obs["handed"] is not None:           # kind "none": the keyword is not given at all
                kwargs["userdata"] = obs["handed"]
        try:
            cfg = Configuration(list(args), **kwargs)
        except BaseException as e:      # SystemExit (argparse error) included
            obs["exc"] = type(e).__name__
            obs["exc_text"] = norm_value("%s | %s" % (e, sys.stderr.getvalue()[-300:]), sc.root)
            cfg = None
        obs["stdout"] = norm_value(stdout_text(sys.stdout), sc.root)
        if cfg is not None:
            opts = {}
            for dest in DESTS:
                opts[dest] = norm_value(getattr(cfg, dest, "<missing>"), sc.root)
            obs["opts"] = opts
            obs["config_tags"] = norm_value(getattr(cfg, "config_tags", None), sc.root)
            obs["userdata"] = ({norm_value(k, sc.root): (norm_value(x, sc.root) if isinstance(x, str) else x)
                                for k, x in cfg.userdata.items()} if cfg.userdata is not None else None)
            obs["userdata_type"] = type(cfg.userdata).__name__
            obs["more_formatters"] = dict(cfg.more_formatters or {})
            obs["more_runners"] = dict(cfg.more_runners or {})
            obs["runner_aliases"] = dict(cfg.runner_aliases or {})
            obs["steps_dir"] = cfg.steps_dir
            obs["environment_file"] = cfg.environment_file
            obs["name_re"] = norm_value(cfg.name_re, sc.root)
            obs["outputs"] = norm_value([o.name for o in cfg.outputs], sc.root)
            obs["reporters"] = tuple(type(r).__name__ for r in cfg.reporters)
            obs["tep_current"] = TagExpressionProtocol.current().name.lower()
            obs["outline_schema"] = ScenarioOutline.annotation_schema
            obs["cfg"] = cfg
        obs["abs"] = {"root": sc.root, "cwd": sc.cwd, "home": sc.home}
    finally:
        sys.stdout, sys.stderr = old_out, old_err
        os.chdir(_SNAP["cwd"])
        if _SNAP["env"]["HOME"] is None:
            os.environ.pop("HOME", None)
        else:
            os.environ["HOME"] = _SNAP["env"]["HOME"]
        sc.close()
    return obs


def digestable(obs):
    d = {k: v for k, v in obs.items() if k not in ("cfg", "abs", "handed", "preview")}
    if "opts" in d:
        d["opts"] = sorted(d["opts"].items())
    for key in ("userdata", "more_formatters", "more_runners", "runner_aliases"):
        if d.get(key) is not None:
            d[key] = sorted((repr(k), repr(v)) for k, v in d[key].items())
    return sorted(d.items())


# =============================================================== reference model
def empty(v):
    return v is None or v == "" or v == () or v == []


def ref_scalar(opt, val):
    """documented conversion of a config/command-line text into the attribute value"""
    k = opt["kind"]
    if k == "int":
        return int(val)
    if k == "level":
        return dict(LEVEL_VALUES)[val]
    if k == "enum":
        return val.lower()
    return val


def abs_in(base, p):
    return os.path.normpath(os.path.join(base, p))


def path_key(base, paths):
    return tuple(abs_in(base, p) for p in paths)


def expectations(spec):
    """dest -> (list of acceptable normalised values, clause); paths as absolute '<S>/...' strings"""
    layout = LAYOUTS[spec.get("layout", "sibling")]
    S = S_TOKEN
    cwd = os.path.normpath(os.path.join(S, layout[0]))
    home = os.path.normpath(os.path.join(S, layout[1]))
    files = list(spec.get("files", ()))
    cmd = {}
    for dest, val, sp in spec.get("cmd", ()):
        cmd[dest] = val
    exp = {}
    for dest in DESTS:
        opt = OPTS[dest]
        fvals = []          # one entry per file that assigns dest: (configdir, value, fspec)
        for f in files:
            for d, v in f.get("opts", ()):
                if d == dest:
                    fvals.append((cwd if f["where"] == "cwd" else home, v, f))
        cval = cmd.get(dest, ABSENT)
        if cval is not ABSENT and fvals:
            clause = "cmd>file"
        elif cval is not ABSENT:
            clause = "cmd>default"
        elif fvals:
            clause = "file>default"
        else:
            clause = "untouched-default"
        if opt["kind"] != "list":
            if cval is not ABSENT:
                acc = [ref_scalar(opt, cval)]
            elif fvals:
                acc = [ref_scalar(opt, v) for _, v, _ in fvals]
            else:
                acc = [DOC_DEFAULTS.get(dest)]
        else:
            fparts = []         # acceptable file contributions
            for cdir, v, f in fvals:
                if opt["pathlike"]:
                    fparts += coupled_outfiles(dest, cdir, cwd, v, f)
                else:
                    fparts.append(tuple(v))
            if dest == "outfiles" and not fvals:
                # documented coupling: file formatters without outfiles get "<format>.output"
                for f in files:
                    ffmt = dict(f.get("opts", ())).get("format")
                    if ffmt:
                        cdir = cwd if f["where"] == "cwd" else home
                        fparts += coupled_outfiles(dest, cdir, cwd, (), f)
                        if clause == "untouched-default":
                            clause = "file>default"
            cpart = None
            if cval is not ABSENT:
                cpart = path_key(cwd, cval) if opt["pathlike"] else tuple(cval)
            if cpart is not None and fparts:
                acc = [fp + cpart for fp in fparts]
                if dest == "tags":
                    acc = [cpart]
                elif dest != "format" and not (dest == "outfiles" and any(
                        dict(f.get("opts", ())).get("format") for f in files)):
                    acc.append(cpart)
            elif cpart is not None:
                acc = [cpart]
            elif fparts:
                acc = list(fparts)
            else:
                acc = [None]
        exp[dest] = (acc, clause)
    # tags: command line, else config-file tags, else config-file default_tags
    if "tags" in exp and "default_tags" in exp:
        if exp["tags"][1] == "untouched-default" and exp["default_tags"][1] != "untouched-default":
            exp["tags"] = (list(exp["default_tags"][0]), "file>default")
    return exp


def coupled_outfiles(dest, cdir, cwd, v, f):
    """acceptable file contribution of a path-like list option, with the documented format/outfiles coupling"""
    if dest != "outfiles":
        return [path_key(cdir, v)]
    fmt = dict(f.get("opts", ())).get("format")
    if not fmt:
        return [path_key(cdir, v)]
    n, m = len(fmt), len(v)
    if m > n:
        return [path_key(cdir, v), path_key(cdir, v[:n])]       # surplus outfiles: not specified
    # documented (features/runner.multiple_formatters.feature): "the outfiles list is extended by using an outfile
    # ${format}.output for each missing outfile"; the statement: output files of a configuration file are relative
    # to THAT file - named or derived alike (a derived name left relative to the cwd splits one file's outputs
    # over two directories).
    extra = ["%s.output" % name for name in fmt[m:]]
    return [path_key(cdir, v) + path_key(cdir, extra)]


def active_rewrites(exp):
    skip = set()
    for sw, targets in REWRITES.items():
        if sw in exp and True in exp[sw][0]:
            skip.update(targets)
    return skip


def compare(spec, obs, v, tag):
    """full option vector against the reference; appends violations; returns (nontrivial, n_compared)"""
    fk = file_kinds(spec)
    if "exc" in obs:
        v.append(({"subcheck": "options", "clause": "build-raises", "exc": obs["exc"], "trigger": trigger_class(spec)},
                  "Configuration(%r) with files %s raised %s: %s"
                  % (list(obs["args"]), describe_files(spec), obs["exc"], obs["exc_text"])))
        return False, 0
    exp = expectations(spec)
    skip = active_rewrites(exp)
    S = S_TOKEN
    cwd = os.path.normpath(os.path.join(S, LAYOUTS[spec.get("layout", "sibling")][0]))
    n = 0
    for dest in DESTS:
        if dest in skip:
            continue
        acc, clause = exp[dest]
        opt = OPTS[dest]
        got = obs["opts"][dest]
        if opt["pathlike"] and isinstance(got, tuple):
            got = path_key(cwd, got)
        if opt["kind"] == "list" and isinstance(got, str) and got:
            got = (got,)
        n += 1
        ok = any((empty(a) and empty(got)) or a == got for a in acc)
        if opt["kind"] == "bool" and ok and not empty(got):
            ok = isinstance(got, bool)
        if ok:
            continue
        cl = clause
        if opt["pathlike"] and isinstance(got, tuple) and any(
                isinstance(a, tuple) and [os.path.basename(x) for x in a] == [os.path.basename(x) for x in got]
                for a in acc):
            cl = "relative-to-config-file"
        where = sorted(set(f["where"] for f in spec.get("files", ()) if dest in dict(f.get("opts", ())))) or ["-"]
        desc = {"subcheck": "options", "clause": cl, "kind": opt["kind"],
                "filekind": fk if clause != "cmd>default" else "-"}
        if cl == "relative-to-config-file":
            if dest == "outfiles":      # a file that only names formats contributes (derived) outfiles too
                where = sorted(set(f["where"] for f in spec.get("files", ())
                                   if set(dict(f.get("opts", ()))) & {"outfiles", "format"})) or ["-"]
            desc["where"] = "+".join(where)
            desc["filekind"] = fk
            if dest == "outfiles":
                desc["outfile"] = misplaced_outfile_class(spec, got, acc)
        v.append((desc,
                  "[%s] option %s: expected %s, observed %r  [files: %s; args: %r]"
                  % (tag, dest, " or ".join(repr(a) for a in acc), got, describe_files(spec), list(obs["args"]))))
    # attributes derived from the options inside Configuration.__init__ (what the runner really uses)
    derived = []
    if "tag_expression_protocol" in exp and "tag_expression_protocol" not in skip:
        derived.append(("TagExpressionProtocol.current()", obs["tep_current"], exp["tag_expression_protocol"][0]))
    if "scenario_outline_annotation_schema" in exp:
        derived.append(("ScenarioOutline.annotation_schema", obs["outline_schema"],
                        exp["scenario_outline_annotation_schema"][0]))
    if "outfiles" in exp and "outfiles" not in skip:
        derived.append(("config.outputs names", path_key(cwd, [x for x in obs["outputs"] if x]),
                        [a or () for a in exp["outfiles"][0]]))
    n += check_output_pairing(spec, obs, exp, skip, cwd, v, tag)
    for what, got, acc in derived:
        n += 1
        if not any(a == got for a in acc):
            v.append(({"subcheck": "options", "clause": "derived-attribute", "what": what.split(" ")[0]},
                      "[%s] %s: expected %s, observed %r  [files: %s; args: %r]"
                      % (tag, what, " or ".join(repr(a) for a in acc), got, describe_files(spec), list(obs["args"]))))
    return nontrivial(spec, exp), n


def file_format_outfiles(spec):
    """(config dir token, formats, outfiles) of the single config file that assigns `format`, else None"""
    layout = LAYOUTS[spec.get("layout", "sibling")]
    hits = []
    for f in spec.get("files", ()):
        o = dict(f.get("opts", ()))
        if o.get("format"):
            cdir = os.path.normpath(os.path.join(S_TOKEN, layout[0] if f["where"] == "cwd" else layout[1]))
            hits.append((cdir, tuple(o["format"]), tuple(o.get("outfiles") or ())))
    return hits[0] if len(hits) == 1 else None


def misplaced_outfile_class(spec, got, acc):
    ffo = file_format_outfiles(spec)
    m = len(ffo[2]) if ffo else None
    for a in acc:
        if isinstance(a, tuple) and len(a) == len(got):
            bad = [i for i, (x, y) in enumerate(zip(a, got)) if x != y]
            if bad and m is not None:
                return "derived" if all(i >= m for i in bad) and bad[0] < len(ffo[1]) else "named"
    return "named"


def check_output_pairing(spec, obs, exp, skip, cwd, v, tag):
    """Configuration.outputs[i] is the stream of formatter i: the i-th formatter of the config file writes to the
    i-th outfile named in that file, else to '<formatter>.output', both in the config file's directory"""
    ffo = file_format_outfiles(spec)
    if ffo is None or "format" in skip or "outfiles" in skip:
        return 0
    cdir, fmts, outs = ffo
    got_fmt = obs["opts"].get("format")
    if not isinstance(got_fmt, tuple) or got_fmt[:len(fmts)] != fmts:
        return 0                         # the format list itself is wrong: reported by the option comparison
    names = list(obs["outputs"])
    n = 0
    for i, fmt in enumerate(fmts):
        want = abs_in(cdir, outs[i]) if i < len(outs) else abs_in(cdir, "%s.output" % fmt)
        got = abs_in(cwd, names[i]) if i < len(names) and names[i] else None
        n += 1
        if got != want:
            v.append(({"subcheck": "options", "clause": "outputs-pairing", "filekind": file_kinds(spec),
                       "outfile": "named" if i < len(outs) else "derived",
                       "where": "+".join(sorted(set(f["where"] for f in spec.get("files", ())))),
                       "misplaced": "directory" if got and os.path.basename(got) == os.path.basename(want) else "other"},
                      "[%s] Configuration.outputs[%d] (formatter %r): expected %r, observed %r  [files: %s; args: %r]"
                      % (tag, i, fmt, want, got, describe_files(spec), list(obs["args"]))))
            break
    return n


def nontrivial(spec, exp):
    """the winning level differs from what the next lower level would give"""
    cmd = {d: val for d, val, _ in spec.get("cmd", ())}
    for f in spec.get("files", ()):
        for d, val in f.get("opts", ()):
            opt = OPTS[d]
            if d in cmd:
                if cmd[d] != val:
                    return True
            elif opt["kind"] == "list" or ref_scalar(opt, val) != DOC_DEFAULTS.get(d):
                return True
    for d, val in cmd.items():
        opt = OPTS[d]
        if opt["kind"] == "list" or ref_scalar(opt, val) != DOC_DEFAULTS.get(d):
            return True
    return False


def file_kinds(spec):
    ks = sorted(set("toml" if f["name"] == TOML_NAME else "ini" for f in spec.get("files", ())))
    return "+".join(ks) or "-"


def describe_files(spec):
    return "; ".join("%s/%s %s%s" % (f["where"], f["name"], list(f.get("opts", ())),
                                     (" userdata=%s" % (list(f["ud"]),)) if f.get("ud") is not None else "")
                     for f in spec.get("files", ())) or "none"


def trigger_class(spec):
    """placement class only (a crash is one defect whatever options happen to be around it)"""
    cmd = spec.get("cmd", ())
    if cmd:
        args = render_cmd(cmd, spec.get("ud_cmd", ()))
        dest, val, sp = cmd[-1]
        if OPTS[dest]["bare"] and sp[0] == "flag" and args and args[-1] == sp[1] and sp[1] in OPTS[dest]["pos"]:
            return "bare-optional-value-last-argument"
    has_file = any(f.get("opts") or f.get("ud") or f.get("fa") or f.get("ra") for f in spec.get("files", ()))
    has_cmd = bool(cmd or spec.get("ud_cmd"))
    return {(False, False): "no-options", (True, False): "file:" + file_kinds(spec),
            (False, True): "cmd", (True, True): "file+cmd"}[(has_file, has_cmd)]


# =============================================================== case functions
def run_build(spec):
    """one spec -> one real Configuration -> complete comparison"""
    reset_state()
    obs = build(spec)
    v = []
    nt_flag, n = compare(spec, obs, v, spec.get("t", "precedence"))
    check_userdata(spec, obs, v)
    dg = digestable(obs)
    nt = None
    if nt_flag or spec.get("ud_cmd") or any(f.get("ud") for f in spec.get("files", ())):
        nt = (spec.get("t"), repr(sorted((f["where"], f["name"], tuple(f.get("opts", ())), tuple(f.get("ud") or ()))
                                         for f in spec.get("files", ()))),
              repr(spec.get("cmd")), repr(spec.get("ud_cmd")), spec.get("layout"))
    out = digest((sorted((d, obs["opts"][d]) for d in assigned(spec)) if "opts" in obs else obs.get("exc"),
                  sorted((obs.get("userdata") or {}).items()) if "opts" in obs else None))
    reset_state()
    return {"v": v, "nt": nt, "out": out, "dg": dg, "n": 1}


def assigned(spec):
    s = set(d for d, _, _ in spec.get("cmd", ()))
    for f in spec.get("files", ()):
        s.update(d for d, _ in f.get("opts", ()))
    return s


# ---- userdata --------------------------------------------------------------
def unquote_pair(t):
    if len(t) >= 2 and t[0] == t[-1] and t[0] in "\"'":
        return t[1:-1]
    return t


def ref_define(text):
    """documented -D grammar: padding stripped, a surrounding quote pair stripped (whole text and value),
    split at the FIRST '=', bare name means "true".  Returns a list of acceptable (name, value)."""
    t = unquote_pair(text.strip())
    if "=" in t:
        name, value = t.split("=", 1)
        value = value.strip()
        acc = [(name.strip(), unquote_pair(value))]
        if unquote_pair(value) != unquote_pair(value).strip():
            acc.append((name.strip(), unquote_pair(value).strip()))     # padding inside quotes: unspecified
        return acc
    return [(t.strip(), "true")]


def define_class(text):
    t = text.strip()
    quoted = len(t) >= 2 and t[0] == t[-1] and t[0] in "\"'"
    inner = unquote_pair(t)
    if "=" not in inner:
        return "quoted-bare-name" if quoted else "bare-name"
    value = inner.split("=", 1)[1].strip()
    if value in ('"', "'"):
        return "value-is-one-quote-char"
    vq = len(value) >= 2 and value[0] == value[-1] and value[0] in "\"'"
    return "%s%s%s" % ("whole-quoted," if quoted else "", "quoted-value" if vq else "plain-value",
                       ",value-has-=" if "=" in value else "")


def check_userdata(spec, obs, v):
    """userdata = file userdata overridden by -D definitions (documented)"""
    if "exc" in obs:
        return
    files = spec.get("files", ())
    ud_cmd = spec.get("ud_cmd", ())
    if not ud_cmd and not any(f.get("ud") is not None for f in files):
        if obs["userdata"]:
            v.append(({"subcheck": "userdata", "clause": "untouched-default"},
                      "userdata %r although no userdata was defined anywhere" % (obs["userdata"],)))
        return
    # file part: every key of every file must be present unless overridden; conflicts between files: either
    want = {}
    for f in files:
        for k, val in (f.get("ud") or ()):
            want.setdefault(k, set()).add(val)
    src = {k: "file" for k in want}
    for form, text in ud_cmd:
        accs = ref_define(text)
        name = accs[0][0]
        if name in src and src[name] == "cmd":
            want[name] |= set(val for _, val in accs)           # repeated -D of one name: either
        else:
            want[name] = set(val for _, val in accs)
        src[name] = "cmd"
    got = obs["userdata"]
    fk = file_kinds(spec)
    nfiles = len(files)
    for k in sorted(want):
        if k not in got or got[k] not in want[k]:
            if src[k] == "cmd":
                text = [t for _, t in ud_cmd if ref_define(t)[0][0] == k][-1]
                desc = {"subcheck": "userdata", "clause": "define-parsing", "input": define_class(text)}
                if any(k in dict(f.get("ud") or ()) for f in files) and k in got and got[k] in set(
                        val for f in files for kk, val in (f.get("ud") or ()) if kk == k):
                    desc = {"subcheck": "userdata", "clause": "cmd>file", "filekind": fk}
                msg = "-D %r: expected userdata[%r] in %r, observed %r" % (text, k, sorted(want[k]), got)
            else:
                desc = {"subcheck": "userdata", "clause": "file>default", "filekind": fk if nfiles == 1 else "-",
                        "files": "one" if nfiles == 1 else "several"}
                msg = "userdata key %r from config file expected in %r, observed userdata %r  [files: %s]" % (
                    k, sorted(want[k]), got, describe_files(spec))
            v.append((desc, msg))
    for k in sorted(got):
        if k not in want and not any(d.get("clause") == "define-parsing" for d, _ in v):
            text = ud_cmd[-1][1] if ud_cmd else ""
            v.append(({"subcheck": "userdata", "clause": "unexpected-key",
                       "input": define_class(text) if ud_cmd else "file"},
                      "unexpected userdata key %r (userdata %r, -D %r, files: %s)"
                      % (k, got, [t for _, t in ud_cmd], describe_files(spec))))


def run_define(case):
    """one -D text: parse_user_define directly and through Configuration in 4 spellings"""
    text, forms = case
    from behave.userdata import parse_user_define
    res = []
    accs = ref_define(text)
    v = []
    try:
        got = parse_user_define(text)
    except Exception as e:
        got = ("EXC", type(e).__name__)
    if tuple(got) not in accs:
        v.append(({"subcheck": "userdata", "clause": "define-parsing", "input": define_class(text)},
                  "parse_user_define(%r) = %r, documented: %r" % (text, got, accs)))
    res.append({"v": v, "nt": ("define", text), "out": ("parse", define_class(text), got == accs[0]),
                "dg": got, "case": (text, ())})
    for form in forms:
        r = run_build({"t": "define", "ud_cmd": ((form, text),)})
        r["case"] = (text, (form,))
        res.append(r)
    return res


GETTER_VALUES = ("1", "0", "x", "1.5", "yes", "off", "true", "no", "on", "false", "", True, False, 3, 2.5, "<missing>")


def ref_getter(getter, value, default_given, default):
    """returns (kind, payload): ('value', v) | ('raises', ValueError) | ('any', None)"""
    if value == "<missing>":
        if default_given:
            return ("value", default)
        return ("value", {"getint": 0, "getfloat": 0.0, "getbool": False, "getas_int": None}[getter])
    if not isinstance(value, str):
        # pre-converted values: same type is preserved; other non-text types are outside the statement
        want = {"getint": int, "getfloat": float, "getbool": bool, "getas_int": int}[getter]
        if type(value) is want:
            return ("value", value)
        return ("any", None)
    if getter in ("getint", "getas_int"):
        try:
            return ("value", int(value))
        except ValueError:
            return ("raises", "ValueError")
    if getter == "getfloat":
        try:
            return ("value", float(value))
        except ValueError:
            return ("raises", "ValueError")
    t = value.strip().lower()
    if t in ("true", "yes", "on", "1"):
        return ("value", True)
    if t in ("false", "no", "off", "0"):
        return ("value", False)
    return ("raises", "ValueError")


def run_getter(case):
    getter, value, default_given, via = case
    from behave.userdata import UserData
    reset_state()
    default = {"getint": 7, "getfloat": 7.5, "getbool": True, "getas_int": 9}[getter]
    v = []
    if via == "direct":
        ud = UserData() if value == "<missing>" else UserData({"key": value})
    else:
        spec = {"t": "getter"}
        if value != "<missing>":
            if via == "cmd":
                spec["ud_cmd"] = (("sep", "key=%s" % value),)
            else:
                spec["files"] = ({"where": "cwd", "name": "behave.ini" if via == "ini" else TOML_NAME,
                                  "ud": (("key", value),)},)
        obs = build(spec)
        if "exc" in obs:
            return {"v": [({"subcheck": "getter", "clause": "build-raises", "exc": obs["exc"]}, obs["exc_text"])],
                    "dg": digestable(obs)}
        ud = obs["cfg"].userdata
    try:
        if getter == "getas_int":
            got = ud.getas(int, "key", default) if default_given else ud.getas(int, "key")
        else:
            meth = getattr(ud, getter)
            got = meth("key", default) if default_given else meth("key")
        res = ("value", got)
    except Exception as e:
        res = ("raises", type(e).__name__)
    want = ref_getter(getter, value, default_given, default)
    ok = True
    if want[0] == "value":
        ok = res[0] == "value" and res[1] == want[1] and type(res[1]) is type(want[1])
    elif want[0] == "raises":
        ok = res == want
    if not ok:
        cls = "missing" if value == "<missing>" else ("text" if isinstance(value, str) else type(value).__name__)
        v.append(({"subcheck": "getter", "clause": {"value": "converted-value", "raises": "value-error"}[want[0]]
                   if value != "<missing>" else "default-for-missing", "getter": getter, "valueclass": cls},
                  "UserData(%s).%s('key'%s) -> %r, documented: %r"
                  % ("" if value == "<missing>" else "{'key': %r}" % (value,), getter,
                     ", %r" % default if default_given else "", res, want)))
    reset_state()
    return {"v": v, "nt": (getter, repr(value), default_given, via) if want[0] != "any" else None,
            "out": (getter, want[0], res[0]), "dg": (res[0], repr(res[1]))}


# ---- consumers that read userdata ONCE while the Configuration is constructed ------------------------------
# Precedence must hold where the value is USED: the reporters built inside Configuration.__init__ copy their
# settings out of config.userdata at construction time; a formatter does the same when make_formatters() builds it.
# name -> (consumer class, attribute, documented default, ((text, attribute value), ...))
_B = (("false", False), ("true", True), ("no", False), ("1", True))
CONSUMERS = collections.OrderedDict([
    ("behave.reporter.summary.output_format",
     ("SummaryReporter", "output_format", "v1", (("v2", "v2"), ("passed_first", "v1"), ("entity_first", "v2"),
                                                 ("v1", "v1")))),
    ("behave.reporter.junit.show_hostname", ("JUnitReporter", "show_hostname", True, _B)),
    ("behave.reporter.junit.show_multiline", ("JUnitReporter", "show_multiline", True, _B)),
    ("behave.reporter.junit.show_scenarios", ("JUnitReporter", "show_scenarios", True, _B)),
    ("behave.reporter.junit.show_tags", ("JUnitReporter", "show_tags", True, _B)),
    ("behave.reporter.junit.show_timings", ("JUnitReporter", "show_timings", True, _B)),
    ("behave.reporter.junit.show_timestamp", ("JUnitReporter", "show_timestamp", True, _B)),
    ("behave.reporter.junit.show_skipped_always", ("JUnitReporter", "show_skipped_always", False, _B)),
    ("behave.formatter.missing_steps.template",
     ("MissingStepsFormatter", "template", None, (("TPL-A {undefined_step_snippets}", "TPL-A {undefined_step_snippets}"),
                                                  ("TPL-B", "TPL-B")))),
])


def consumer_names_in_source():
    """userdata names read by behave's own reporters/formatters, scraped from their source (vacuity guard only)"""
    import inspect
    from behave.reporter import junit, summary
    from behave.contrib import formatter_missing_steps
    found = set()
    for mod in (junit, summary):
        src = inspect.getsource(mod)
        scopes = re.findall(r'userdata_scope\s*=\s*"([^"]+)"', src)
        for key in re.findall(r'config\.get(?:bool|int|float|as)?\(\s*"([A-Za-z_]+)"', src):
            for sc in scopes:
                found.add("%s.%s" % (sc, key))
    src = inspect.getsource(formatter_missing_steps)
    for sc in re.findall(r'scope\s*=\s*"([^"]+)"', src):
        if re.search(r'"template"', src):
            found.add("%s.template" % sc)
    return found


def gen_consumers(quick):
    fkinds = ("behave.ini", TOML_NAME) if quick else FILE_NAMES
    for name, (cls, attr, default, values) in CONSUMERS.items():
        vals = values[:2] if quick else values
        pls = [("absent", None, None, None, None)]
        for a in vals:
            pls.append(("cmd", None, None, a[0], None))
            for fk in fkinds:
                for where in (("cwd",) if quick else ("cwd", "home")):
                    pls.append(("file", (where, fk, a[0]), None, None, None))
                    for b in vals:
                        if b[1] != a[1]:
                            pls.append(("both", (where, fk, a[0]), None, b[0], None))
        a, b = vals[0], vals[1]
        for fk in fkinds[:2]:
            pls.append(("two-files", ("home", fk, a[0]), ("cwd", "behave.ini", None), None, None))    # other file: other key
            pls.append(("two-files", ("home", fk, a[0]), ("cwd", "setup.cfg", b[0]), None, None))     # same key: either
            pls.append(("two-files+cmd", ("home", fk, b[0]), ("cwd", "behave.ini", b[0]), a[0], None))
        if cls == "MissingStepsFormatter":
            switches = [("fmt", "on")]
        else:
            switches = [(j, sm) for j in ("cmd", "file", "off") for sm in ("on", "off")]
        for pl in pls:
            for sw in switches:
                yield (name, pl[0], pl[1], pl[2], pl[3], sw)


def run_consumer(case):
    name, placement, f1, f2, cmdval, (junit, summary) = case
    cls, attr, default, values = CONSUMERS[name]
    text2val = dict(values)
    reset_state()
    files, fopts = [], []
    if junit == "file":
        fopts.append(("junit", True))
    first = True
    for f in (f1, f2):
        if f is None:
            continue
        where, fname, val = f
        ud = ((name, val),) if val is not None else (("other.key", "O"),)
        files.append(fspec(where, fname, fopts if first else [], ud))
        first = False
    if junit == "file" and not files:
        files.append(fspec("cwd", "behave.ini", fopts))
    cmd = []
    if junit == "cmd":
        cmd.append(("junit", True, ("flag", "--junit")))
    if summary == "off":
        cmd.append(("summary", False, ("flag", "--no-summary")))
    if junit == "fmt":
        cmd.append(("format", ("steps.missing",), ("sep", "-f")))
    spec = {"t": "consumer", "files": tuple(files), "cmd": tuple(cmd)}
    if cmdval is not None:
        spec["ud_cmd"] = (("sep", "%s=%s" % (name, cmdval)),)
    obs = build(spec)
    v = []
    compare(spec, obs, v, "consumer")
    check_userdata(spec, obs, v)
    if "exc" in obs:
        reset_state()
        return {"v": v, "dg": digestable(obs), "out": ("consumer", "exc")}
    cfg = obs["cfg"]
    # reference: -D, else the config file(s), else the documented default
    fvals = [f[2] for f in (f1, f2) if f is not None and f[2] is not None]
    if cmdval is not None:
        acc, clause = [text2val[cmdval]], ("cmd>file" if fvals else "cmd>default")
    elif fvals:
        acc, clause = [text2val[x] for x in fvals], "file>default"      # two files, same key: either (not stated)
    else:
        acc, clause = [default], "untouched-default"
    want_reporters = []
    if junit in ("cmd", "file"):
        want_reporters.append("JUnitReporter")
    if summary == "on":
        want_reporters.append("SummaryReporter")
    got_reporters = [type(r).__name__ for r in cfg.reporters]
    if sorted(x.replace("V1", "").replace("V2", "") for x in got_reporters) != sorted(want_reporters):
        v.append(({"subcheck": "consumer", "clause": "reporters-present"},
                  "config.reporters = %r, expected %r  [files: %s; args: %r]"
                  % (got_reporters, want_reporters, describe_files(spec), list(obs["args"]))))
    objs = [r for r in cfg.reporters if type(r).__name__.startswith(cls)]
    if cls == "MissingStepsFormatter":
        from behave.formatter._registry import make_formatters
        so = sys.stdout
        sys.stdout = io.StringIO()
        try:
            objs = [f for f in make_formatters(cfg, cfg.outputs) if type(f).__name__ == cls]
        finally:
            sys.stdout = so
        if default is None:
            acc = [type(objs[0]).template if x is None else x for x in acc] if objs else acc
    got = "<no %s constructed>" % cls
    nt = None
    if objs:
        got = getattr(objs[0], attr, "<missing>")
        if not any(got == a and type(got) is type(a) for a in acc):
            v.append(({"subcheck": "consumer", "clause": clause, "consumer": cls},
                      "%s.%s = %r, but userdata[%r] is %s -> expected %s  [files: %s; args: %r]"
                      % (cls, attr, got, name, {"cmd>file": "-D %r over file %r" % (cmdval, fvals),
                                                "cmd>default": "-D %r" % (cmdval,), "file>default": "file %r" % (fvals,),
                                                "untouched-default": "not defined"}[clause],
                         " or ".join(repr(a) for a in acc), describe_files(spec), list(obs["args"]))))
        if clause != "untouched-default":
            nt = ("consumer", case)
    # update_userdata(): documented to re-apply the -D defines over the new data.  Whether an already constructed
    # reporter follows is not stated anywhere: observed only (digest), never judged.
    after = None
    try:
        cfg.update_userdata({name: "UPDATED", "update.only": "U"})
        after = (cfg.userdata.get(name), cfg.userdata.get("update.only"))
        want_after = (ref_define("%s=%s" % (name, cmdval))[0][1] if cmdval is not None else "UPDATED", "U")
        if after != want_after:
            v.append(({"subcheck": "consumer", "clause": "update_userdata-define-wins"},
                      "after update_userdata({%r: 'UPDATED', 'update.only': 'U'}) with -D %r: userdata has %r, expected %r"
                      % (name, cmdval, after, want_after)))
    except Exception as e:
        v.append(({"subcheck": "consumer", "clause": "update_userdata-raises", "exc": type(e).__name__}, repr(e)))
    dg = (digestable(obs), repr(got), after, repr(getattr(objs[0], attr, None)) if objs else None)
    reset_state()
    return {"v": v, "nt": nt, "out": ("consumer", cls, attr, repr(got), clause), "dg": dg}


# ---- names are case-sensitive and preserved exactly -----------------------------------------------------
# features/userdata.feature ("Loaded user-data from configuration should have case-sensitive keys"): a name keeps
# its spelling through every file format; two names that differ only in case are different names; -D overrides the
# file value of the SAME spelled name only; the typed getters find the exactly spelled name.  One representative
# per rewriting a parser could apply to a name: case folding, blanks/tabs around the delimiter, '.', '-', '_',
# ':' (where the file syntax allows it) and non-ASCII letters with case.
NAME_FAMILIES = (("Browser", "BROWSER", "browser"), ("maxRetry", "MAXRETRY", "maxretry"),
                 ("\u041a\u043b\u044e\u0447", "\u041a\u041b\u042e\u0427", "\u043a\u043b\u044e\u0447"))
PUNCT_NAMES = ("Ns.Key-x_Y", "ns.key-x_y", "A_b.C-d")
TOML_ONLY_NAMES = ("Ns:Key", "ns:key")             # ':' is a delimiter in ini files; legal in a quoted TOML key and -D
FMT_FAMILY = (("MyFmt", "behave.formatter.plain:PlainFormatter"), ("MYFMT", "behave.formatter.json:JSONFormatter"),
              ("myfmt", "behave.formatter.progress:ScenarioProgressFormatter"))
RUN_FAMILY = (("MyRunner", "behave.runner:Runner"), ("MYRUNNER", "pkg_a.mod:RunnerA"), ("myrunner", "pkg_b:RunnerB"))


def name_class(name):
    if any(ord(c) > 127 for c in name):
        base = "unicode-"
    elif any(c in name for c in ".-_:"):
        base = "punct-"
    else:
        base = ""
    if name == name.lower():
        return base + "lower"
    if name == name.upper():
        return base + "UPPER"
    return base + "Mixed"


def names_filekind(spec):
    ks = set("toml" if f["name"] == TOML_NAME else "ini" for f in spec.get("files", ()))
    return "ini" if "ini" in ks else ("toml" if ks else "-")


def rewrite_class(want, got):
    """what happened to the names: 'case-folded' when every wrong name matches an expected/observed one up to case"""
    missing = [k for k in want if k not in got]
    extra = [k for k in got if k not in want]
    if missing or extra:
        lw, lg = set(k.lower() for k in want), set(k.lower() for k in got)
        if all(k.lower() in lg for k in missing) and all(k.lower() in lw for k in extra):
            return "case-folded"
        return "lost-or-extra"
    return "value"


def gen_names(quick):
    fnames = ("behave.ini", "setup.cfg", TOML_NAME) if quick else FILE_NAMES
    wheres = ("cwd",) if quick else ("cwd", "home")
    val = {}
    for fam in NAME_FAMILIES + (PUNCT_NAMES, TOML_ONLY_NAMES):
        for i, nm in enumerate(fam):
            val[nm] = str(11 * (i + 1))
    for fam in NAME_FAMILIES:
        for nm in fam:                                           # -D only
            yield {"t": "names", "ud_cmd": (("sep", "%s=7" % nm),), "probe": fam}
        yield {"t": "names", "ud_cmd": tuple(("sep", "%s=%d" % (nm, 7 + i)) for i, nm in enumerate(fam)), "probe": fam}
    for fname in fnames:
        for where in wheres:
            seps = (" = ",) if (quick or fname == TOML_NAME) else (" = ", "=", "\t=\t", " : ")
            for fam in NAME_FAMILIES:
                for sep in seps:
                    f = fspec(where, fname, [], [(nm, val[nm]) for nm in fam])            # all spellings in one file
                    if sep != " = ":
                        f["sep"] = sep
                    yield {"t": "names", "files": (f,), "probe": fam}
                for i, nm in enumerate(fam):
                    f = fspec(where, fname, [], [(nm, val[nm])])                          # one spelling only
                    yield {"t": "names", "files": (f,), "probe": fam}
                    for other in fam:                                                     # file x -D: 3 x 3
                        yield {"t": "names", "files": (f,), "ud_cmd": (("sep", "%s=7" % other),), "probe": fam}
                        f2 = fspec("home" if where == "cwd" else "cwd", "behave.ini" if fname != "behave.ini"
                                   else "tox.ini", [], [(other, "55")])                   # two files: 3 x 3
                        yield {"t": "names", "files": (f, f2), "probe": fam}
            extra = PUNCT_NAMES + (TOML_ONLY_NAMES if fname == TOML_NAME else ())
            f = fspec(where, fname, [], [(nm, val[nm]) for nm in extra])
            yield {"t": "names", "files": (f,), "probe": extra}
            yield {"t": "names", "files": (f,), "ud_cmd": (("sep", "%s=7" % extra[0]), ("sep", "%s=8" % extra[-1])),
                   "probe": extra}
            # formatter / runner aliases: all spellings in one file; one spelling, used on the command line
            yield {"t": "names", "files": (dict(fspec(where, fname), fa=FMT_FAMILY, ra=RUN_FAMILY),), "probe": ()}
            for i in range(3):
                f = dict(fspec(where, fname), fa=(FMT_FAMILY[i],), ra=(RUN_FAMILY[i],))
                yield {"t": "names", "files": (f,), "probe": (),
                       "cmd": (("format", (FMT_FAMILY[i][0],), ("sep", "-f")), ("runner", RUN_FAMILY[i][0], ("sep", "-r")))}
                f2 = dict(fspec("home" if where == "cwd" else "cwd", "behave.ini" if fname != "behave.ini" else "tox.ini"),
                          fa=(FMT_FAMILY[(i + 1) % 3],), ra=(RUN_FAMILY[(i + 1) % 3],))
                yield {"t": "names", "files": (f, f2), "probe": ()}
    for nm in TOML_ONLY_NAMES + PUNCT_NAMES:
        yield {"t": "names", "ud_cmd": (("sep", "%s=7" % nm),), "probe": (nm,)}


def run_names(spec):
    reset_state()
    spec = dict(spec)
    probe = spec.pop("probe", ())
    obs = build(spec)
    v = []
    compare(spec, obs, v, "names")
    fk = file_kinds(spec)
    if "exc" in obs:
        reset_state()
        return {"v": v, "dg": digestable(obs), "out": ("names", "exc")}
    files = spec.get("files", ())
    # ---- userdata: exact names; -D overrides the same spelling only
    want = {}
    for f in files:
        for k, val in (f.get("ud") or ()):
            want.setdefault(k, set()).add(val)                  # same spelling in two files: either
    for form, text in spec.get("ud_cmd", ()):
        k, val = ref_define(text)[0]
        want[k] = {val}
    got = obs["userdata"]
    nfiles = len([f for f in files if f.get("ud")])
    placement = ("file" if nfiles == 1 else "two-files" if nfiles else "") + ("+D" if spec.get("ud_cmd") else "")
    bad = [k for k in want if k not in got or got[k] not in want[k]] + [k for k in got if k not in want]
    if bad:
        k = sorted(bad)[0]
        v.append(({"subcheck": "names", "clause": "name-preserved" if any(x not in got or x not in want for x in bad)
                   else "define-overrides-same-spelling-only", "section": "userdata",
                   "filekind": names_filekind(spec), "rewrite": rewrite_class(want, got)},
                  "userdata expected exactly %s, observed %r (placement %s)  [files: %s; args: %r]"
                  % ({k: sorted(x) for k, x in sorted(want.items())}, got, placement or "-D", describe_files(spec),
                     list(obs["args"]))))
    # ---- typed getter finds the exactly spelled name (all values are integers as text)
    ud = obs["cfg"].userdata
    for nm in probe:
        try:
            r = ud.getint(nm, -1)
        except Exception as e:
            r = "EXC:" + type(e).__name__
        acc = [int(x) for x in want[nm]] if nm in want else [-1]
        if r not in acc and not bad:
            v.append(({"subcheck": "names", "clause": "getter-exact-name", "section": "userdata",
                       "filekind": names_filekind(spec)},
                      "userdata.getint(%r, -1) = %r, expected %r; userdata %r  [files: %s; args: %r]"
                      % (nm, r, acc, got, describe_files(spec), list(obs["args"]))))
    # ---- formatter / runner aliases
    from behave.formatter import _registry as _freg
    for key, attr, sect in (("fa", "more_formatters", "formatters"), ("ra", "more_runners", "runners")):
        wanta = {}
        for f in files:
            for k, val in (f.get(key) or ()):
                wanta.setdefault(k, set()).add(val)
        gota = obs[attr]
        bada = [k for k in wanta if k not in gota or gota[k] not in wanta[k]] + [k for k in gota if k not in wanta]
        effect = None
        if not bada and sect == "formatters":
            missing = [k for k in wanta if k not in dict.keys(_freg._formatter_registry)]
            stray = [k for k in dict.keys(_freg._formatter_registry) if k not in _SNAP["formatters"] and k not in wanta]
            if missing or stray:
                effect = "formatter registry: missing %r, unexpected %r" % (missing, stray)
        if not bada and sect == "runners":
            ra = obs["runner_aliases"]
            missing = [k for k in wanta if k not in ra or ra[k] not in wanta[k]]
            stray = [k for k in ra if k not in wanta and k != "default"]
            if missing or stray:
                effect = "config.runner_aliases %r: missing %r, unexpected %r" % (ra, missing, stray)
        if bada or effect:
            k = sorted(bada)[0] if bada else sorted(wanta)[0]
            v.append(({"subcheck": "names", "clause": "name-preserved", "section": sect,
                       "filekind": names_filekind(spec), "rewrite": rewrite_class(wanta, gota) if bada else "effect"},
                      "config.%s expected exactly %s, observed %r%s  [files: %s; args: %r]"
                      % (attr, {k: sorted(x) for k, x in sorted(wanta.items())}, gota,
                         "; " + effect if effect else "", describe_files(spec), list(obs["args"]))))
    dg = digestable(obs)
    reset_state()
    nt = ("names", repr(spec)) if (want or any(f.get("fa") or f.get("ra") for f in files)) else None
    return {"v": v, "nt": nt, "out": ("names", digest(sorted(got.items())), digest(sorted(obs["more_formatters"]))),
            "dg": dg}


# ---- what behave reads from a config file must not depend on unrelated process state -----------------------
# (a) NON-ASCII text in config-file values and userdata names/values, per option kind, ini and toml (the files are
# UTF-8 on disk); (b) sys.stdout while Configuration()/read_configuration() runs: the harness StringIO, the real one,
# TextIOWrapper(BytesIO) with latin-1 / cp1252 / ascii / utf-8, an object without `encoding`.  Same oracle as
# everywhere: the value arrives as written, ini and toml agree, relative paths resolve against the file's directory.
# Letters: Latin-1 range, cp1252-only signs (euro, em dash), letters whose UTF-8 bytes are undefined in cp1252, CJK.
U_TEXT = {
    "stage": ("étape", "prüfung"),
    "junit_directory": ("rapports/été", "вывод"),
    "logging_format": ("%(message)s €", "ü %(name)s"),
    "logging_datefmt": ("%H·%M", "%d—%m"),
    "logging_filter": ("föö,-bär", "名"),
    "runner": ("pkg:Ränner", "mód:Cláss"),
    "exclude_re": ("é.*x", "ß+"),
    "include_re": ("größe.*", "А[а-я]+"),
    "scenario_outline_annotation_schema": ("{name} — @{row.id}", "{name} «{row.index}»"),
    "lang": ("dé", "日"),
    "default_format": ("pläin", "prögress"),
}
U_LIST = {
    "name": (("prüfung", "日本語 test"), ("Árbol",)),
    "tags": (("@größe", "@été"), ("@тег",)),
    "default_tags": (("@défaut",), ("@über", "@Å")),
    "outfiles": (("sortie/résultat.txt", "ü.txt"), ("../вывод/o.txt",)),
    "paths": (("fonctionnalités/a", "../ünter/b.feature"), ("機能/x.feature",)),
}
U_USERDATA = (("größe", "42"), ("clé", "valeur été €"), ("名前", "値"),
              ("plain", "ÁÍÝА"))
U_PROBE = "größe"


def gen_encoding(quick):
    fnames = ("behave.ini", TOML_NAME) if quick else FILE_NAMES
    both = sorted(U_TEXT.items()) + sorted(U_LIST.items())
    for so in STDOUT_KINDS:
        wheres = ("cwd", "home") if (not quick or so in (None, "latin-1")) else ("home",)
        for fname in fnames:
            for where in wheres:
                for i in (0, 1):
                    for dest, vals in both:
                        if dest not in OPTS:
                            continue
                        if quick and i == 1 and so not in (None, "latin-1", "cp1252"):
                            continue
                        yield {"t": "encoding", "stdout": so, "files": (fspec(where, fname, [(dest, vals[i])]),)}
                # everything at once + userdata; userdata alone; a command-line value over the file value
                allopts = [(d, v[0]) for d, v in both if d in OPTS]
                yield {"t": "encoding", "stdout": so, "files": (fspec(where, fname, allopts, U_USERDATA),)}
                yield {"t": "encoding", "stdout": so, "files": (fspec(where, fname, [], U_USERDATA),), "probe": (U_PROBE,)}
                yield {"t": "encoding", "stdout": so,
                       "files": (fspec(where, fname, [("stage", U_TEXT["stage"][0])], U_USERDATA),),
                       "cmd": (("stage", U_TEXT["stage"][1], ("eq", "--stage")),
                               ("name", U_LIST["name"][1], ("sep", "-n"))),
                       "ud_cmd": (("sep", "clé=ça"), ("sep", "новый=да")),
                       "probe": (U_PROBE,)}
        # command line only (arguments are given as text, no decoding involved)
        yield {"t": "encoding", "stdout": so,
               "cmd": (("stage", U_TEXT["stage"][0], ("sep", "--stage")), ("tags", U_LIST["tags"][0], ("sep", "-t")),
                       ("outfiles", U_LIST["outfiles"][0], ("sep", "-o")), ("paths", U_LIST["paths"][0], ("positional",))),
               "ud_cmd": (("sep", U_PROBE + "=43"),), "probe": (U_PROBE,)}


def run_encoding(spec):
    spec = dict(spec)
    probe = spec.pop("probe", ())
    reset_state()
    obs = build(spec)
    v = []
    compare(spec, obs, v, "encoding")
    check_userdata(spec, obs, v)
    if "exc" not in obs:
        want = {}
        for f in spec.get("files", ()):
            want.update(dict(f.get("ud") or ()))
        for form, text in spec.get("ud_cmd", ()):
            k, val = ref_define(text)[0]
            want[k] = val
        for nm in probe:
            try:
                r = obs["cfg"].userdata.getint(nm, -1)
            except Exception as e:
                r = "EXC:" + type(e).__name__
            if r != int(want[nm]) and not any(d.get("subcheck") == "userdata" for d, _ in v):
                v.append(({"subcheck": "userdata", "clause": "getter-exact-name"},
                          "userdata.getint(%r, -1) = %r, expected %s" % (nm, r, want[nm])))
        st = obs["opts"].get("stage")
        if st and "stage" in assigned(spec):
            if obs["steps_dir"] != st + "_steps" or obs["environment_file"] != st + "_environment.py":
                v.append(({"subcheck": "options", "clause": "derived-attribute", "what": "steps_dir"},
                          "stage %r but steps_dir %r, environment_file %r" % (st, obs["steps_dir"], obs["environment_file"])))
    # none of it may depend on what sys.stdout is: the descriptor names the stdout class that triggered it
    out_v = one_encoding_violation(v, names_filekind(spec), spec.get("stdout"), "Configuration")
    dg = [(k, val) for k, val in digestable(obs) if k != "stdout"]
    reset_state()
    return {"v": out_v, "nt": ("encoding", repr(spec)), "dg": dg, "out": ("encoding", digest(dg))}


def one_encoding_violation(v, filekind, so, route):
    """all symptoms of one build collapse into one violation: non-ASCII text of a config source did not arrive as
    written; the descriptor names the source kind and the kind of sys.stdout under which it happened"""
    if not v:
        return []
    exc = [d.get("exc") for d, _ in v if d.get("clause") == "build-raises"]
    desc = {"subcheck": "encoding", "clause": "non-ascii-text-as-written", "filekind": filekind,
            "stdout": stdout_class(so), "outcome": ("raises:%s" % exc[0]) if exc else "wrong-value"}
    return [(desc, "[sys.stdout: %s; %s] %s%s" % (stdout_class(so), route, v[0][1],
                                                  (" (+%d more symptoms: %s)" % (len(v) - 1, sorted(set(
                                                      d.get("clause", "?") for d, _ in v[1:])))) if len(v) > 1 else ""))]


def gen_read_enc(quick):
    for so in STDOUT_KINDS:
        for fname in (("behave.ini", "setup.cfg", TOML_NAME) if quick else FILE_NAMES):
            for where in ("conf", "abs"):
                yield (so, fname, where)


def run_read_enc(case):
    """read_configuration(path) of a UTF-8 file with non-ASCII content under every kind of sys.stdout"""
    so, fname, where = case
    from behave.configuration import read_configuration
    reset_state()
    fopts = [("format", ("plain", "json")), ("outfiles", U_LIST["outfiles"][0][:1]), ("paths", U_LIST["paths"][0]),
             ("stage", U_TEXT["stage"][0]), ("name", U_LIST["name"][0]), ("logging_format", U_TEXT["logging_format"][0])]
    root = tempfile.mkdtemp(prefix="c20-%s-" % RUN_TAG, dir="/dev/shm")
    cwd = os.path.join(root, "t", "work")
    confdir = os.path.join(root, "t", "elsewhere") if where == "abs" else os.path.join(cwd, where)
    arg = os.path.join(confdir, fname) if where == "abs" else os.path.join(where, fname)
    conf_tok = confdir.replace(root, S_TOKEN)
    cwd_tok = os.path.join(S_TOKEN, "t", "work")
    old_out = sys.stdout
    try:
        os.makedirs(cwd)
        os.makedirs(confdir, exist_ok=True)
        with open(os.path.join(confdir, fname), "w", encoding="utf-8") as fh:
            fh.write(render_file(fspec("cwd", fname, fopts, U_USERDATA)))
        os.chdir(cwd)
        sys.stdout = make_stdout(so)
        try:
            data = read_configuration(arg)
            got = {k: norm_value(data.get(k), root) for k in ("format", "outfiles", "paths", "stage", "name",
                                                              "logging_format")}
            got["userdata"] = tuple(sorted((data.get("userdata") or {}).items()))
        except Exception as e:
            got = ("EXC", type(e).__name__, norm_value(str(e), root))
    finally:
        sys.stdout = old_out
        os.chdir(_SNAP["cwd"])
        shutil.rmtree(root, ignore_errors=True)
    so_class = stdout_class(so)
    fk = "toml" if fname == TOML_NAME else "ini"
    v = []
    if isinstance(got, tuple):
        v.append(({"subcheck": "options", "clause": "build-raises", "exc": got[1]},
                  "read_configuration(%r) raised %s: %s" % (fname, got[1], got[2])))
        return {"v": one_encoding_violation(v, fk, so, "read_configuration"), "dg": got, "out": ("read-enc", "exc")}
    want = {"format": ("plain", "json"),
            "outfiles": path_key(conf_tok, U_LIST["outfiles"][0][:1] + ("json.output",)),
            "paths": path_key(conf_tok, U_LIST["paths"][0]), "stage": U_TEXT["stage"][0],
            "name": U_LIST["name"][0], "logging_format": U_TEXT["logging_format"][0],
            "userdata": tuple(sorted(U_USERDATA))}
    for k in sorted(want):
        g = got[k]
        if k in ("outfiles", "paths"):
            g = path_key(cwd_tok, g or ())
        elif isinstance(g, list):
            g = tuple(g)
        if g != want[k]:
            v.append(({"subcheck": "options" if k != "userdata" else "userdata", "clause": "file>default",
                       "kind": "userdata" if k == "userdata" else OPTS[k]["kind"], "filekind": fk,
                       "text": "non-ascii", "stdout": so_class, "route": "read_configuration"},
                      "[sys.stdout: %s] read_configuration(%r): %s expected %r, observed %r"
                      % (so_class, arg.replace(root, S_TOKEN), k, want[k], g)))
    reset_state()
    return {"v": one_encoding_violation(v, fk, so, "read_configuration"), "nt": ("read-enc", case),
            "dg": sorted(got.items()), "out": ("read-enc", digest(sorted(got.items())))}


# ---- library use: userdata handed over to Configuration(...) / assigned before calling setup_userdata() again ----
# The KIND of object that holds the userdata before the -D defines are applied must not matter: a plain dict (what
# the command-line flow and every config file produce), a UserData object, a UserData object of which a
# UserDataNamespace view was taken before, or nothing.  -D wins over everything else, typed getters and namespace
# views (taken from config.userdata afterwards) see the effective values.
HANDED = (("foo", "H"), ("ns.key", "5"), ("keep", "K"))
HANDOVER_KINDS = ("none", "dict", "UserData", "UserData+view")
HANDOVER_DEFINES = (("override", "foo=C"), ("new", "new=N"), ("flag", "flag"), ("ns", "ns.key=7"))


def make_handover(kind, items=HANDED):
    from behave.userdata import UserData, UserDataNamespace
    if kind == "none":
        return None, None
    if kind == "dict":
        return dict(items), None
    ud = UserData(items)
    return ud, (UserDataNamespace("ns", ud) if kind == "UserData+view" else None)


def gen_handover(quick):
    subsets = [c for r in range(len(HANDOVER_DEFINES) + 1) for c in itertools.combinations(range(len(HANDOVER_DEFINES)), r)]
    filemodes = ("ignored", "absent", "cwd-userdata", "cwd-no-userdata", "home-userdata")
    for kind in HANDOVER_KINDS:
        for fm in filemodes:
            for fname in (("behave.ini",) if quick or fm in ("ignored", "absent") else ("behave.ini", TOML_NAME)):
                for sub in subsets:
                    yield ("constructor", kind, fm, fname, sub)
    for kind in HANDOVER_KINDS[1:]:
        for first in ((), (0,), (2,)):                      # defines already given to the constructor
            for sub in subsets:
                if sub:
                    yield ("setup_userdata-again", kind, "absent", "behave.ini", first + (-1,) + sub)


def effective_userdata(sources, defines):
    """sources: list of item lists in rising precedence whose mutual order is NOT stated (handed-over default vs
    config file): either wins; then the -D texts, which win over everything"""
    want = {}
    for items in sources:
        for k, val in items:
            want.setdefault(k, set()).add(val)
    for text in defines:
        k, val = ref_define(text)[0]
        want[k] = {val}
    return want


def judge_userdata_object(ud, want, v, desc, ctxt):
    """the userdata object itself, the typed getters and a namespace view taken from it"""
    from behave.userdata import UserData, UserDataNamespace
    got = dict(ud) if ud is not None else None
    if not isinstance(ud, UserData):
        v.append((dict(desc, clause="userdata-type"), "config.userdata is %s  %s" % (type(ud).__name__, ctxt)))
        return
    bad = [k for k in sorted(want) if k not in got or got[k] not in want[k]] + [k for k in sorted(got) if k not in want]
    if bad:
        v.append((dict(desc, clause="define-wins"),
                  "config.userdata expected %s, observed %r (wrong: %s)  %s"
                  % ({k: sorted(x) for k, x in sorted(want.items())}, got, bad, ctxt)))
        return
    view = UserDataNamespace("ns", ud)
    probes = [("getint('ns.key', -1)", lambda: ud.getint("ns.key", -1), [int(x) for x in want.get("ns.key", ())] or [-1]),
              ("getbool('flag')", lambda: ud.getbool("flag"), [True] if "flag" in want else [False]),
              ("UserDataNamespace('ns', userdata).getint('key', -1)", lambda: view.getint("key", -1),
               [int(x) for x in want.get("ns.key", ())] or [-1]),
              ("UserDataNamespace('ns', userdata).get('key')", lambda: view.get("key"),
               sorted(want.get("ns.key", ())) or [None])]
    for what, f, acc in probes:
        try:
            r = f()
        except Exception as e:
            r = "EXC:" + type(e).__name__
        if r not in acc:
            v.append((dict(desc, clause="getter-or-view-effective"), "%s = %r, expected %r; userdata %r  %s"
                      % (what, r, acc, got, ctxt)))
            return


def run_handover(case):
    route, kind, fm, fname, sub = case
    reset_state()
    files = ()
    fud = (("foo", "F"), ("filekey", "FK"))
    if fm in ("ignored", "cwd-userdata"):
        files = (fspec("cwd", fname, [("stop", True)], fud),)
    elif fm == "cwd-no-userdata":
        files = (fspec("cwd", fname, [("stop", True)]),)
    elif fm == "home-userdata":
        files = (fspec("home", fname, [], fud),)
    if route == "constructor":
        first, again = sub, ()
    else:
        cut = sub.index(-1)
        first, again = sub[:cut], sub[cut + 1:]
    spec = {"t": "handover", "files": files, "handover": kind, "load_config": fm != "ignored",
            "ud_cmd": tuple(("sep", HANDOVER_DEFINES[i][1]) for i in first)}
    obs = build(spec)
    desc = {"subcheck": "userdata-handover", "handed": kind, "route": route,
            "config_file": "ignored" if fm == "ignored" else ("absent" if fm == "absent" else "present")}
    v = []
    if "exc" in obs:
        v.append((dict(desc, clause="build-raises", exc=obs["exc"]), "%r: %s" % (case, obs["exc_text"])))
        reset_state()
        return {"v": v, "dg": digestable(obs), "out": ("handover", "exc")}
    cfg = obs["cfg"]
    sources = []
    if kind != "none":
        sources.append(HANDED)
    if fm in ("cwd-userdata", "home-userdata"):
        sources.append(fud)
    defs = [HANDOVER_DEFINES[i][1] for i in first]
    want = effective_userdata(sources, defs)
    ctxt = "[Configuration(%r, load_config=%r, userdata=<%s %r>); files: %s]" % (
        list(obs["args"]), fm != "ignored", kind, dict(HANDED) if kind != "none" else None, describe_files(spec))
    judge_userdata_object(cfg.userdata, want, v, desc, ctxt)
    pre = None
    if obs.get("preview") is not None:         # a view taken BEFORE: nothing is stated about it - observed only
        pre = (obs["preview"].get("key"), "flag" in obs["preview"].data)
    after = None
    if route != "constructor" and not v:
        # assign another userdata object of the same kind + defines, call the public setup_userdata() again
        items2 = (("foo", "H2"), ("ns.key", "6"), ("other", "O"))
        handed2, _pre2 = make_handover(kind, items2)
        defs2 = [HANDOVER_DEFINES[i][1] for i in again]
        cfg.userdata = handed2
        cfg.userdata_defines = [ref_define(t)[0] for t in defs2]
        try:
            cfg.setup_userdata()
            want2 = effective_userdata([items2], defs2)
            judge_userdata_object(cfg.userdata, want2, v, desc,
                                  "[config.userdata = <%s %r>; config.userdata_defines = %r; config.setup_userdata()]"
                                  % (kind, dict(items2), cfg.userdata_defines))
            after = sorted(dict(cfg.userdata).items())
        except Exception as e:
            v.append((dict(desc, clause="setup_userdata-raises", exc=type(e).__name__), repr(e)))
    dg = (digestable(obs), pre, after)
    reset_state()
    nt = ("handover", case) if (first or again) else None
    return {"v": v[:1], "nt": nt, "out": ("handover", kind, fm, digest((sorted(obs["userdata"].items()), after))), "dg": dg}


# ---- rebuild differential -----------------------------------------------------
def run_rebuild(case):
    """build A then B in one process without any reset in between; B must look like a fresh B"""
    spec_a, spec_b = case
    reset_state()
    fresh = digestable(build(spec_b))
    reset_state()
    first = digestable(build(spec_a))
    second = digestable(build(spec_b))
    v = []
    if second != fresh:
        df, ds = dict(fresh), dict(second)
        diffs = []
        for k in sorted(set(df) | set(ds)):
            if df.get(k) != ds.get(k):
                if k == "opts":
                    of, os_ = dict(df[k]), dict(ds[k])
                    diffs += [("option " + d, of.get(d), os_.get(d)) for d in sorted(of) if of.get(d) != os_.get(d)]
                else:
                    diffs.append((k, df.get(k), ds.get(k)))
        what = diffs[0][0].split(" ")[0] if diffs else "?"
        v.append(({"subcheck": "rebuild", "clause": "second!=fresh", "what": what},
                  "after building %s / args %r, building %s / args %r differs from a fresh build: %s"
                  % (describe_files(spec_a), list(dict(first).get("args", ())), describe_files(spec_b),
                     list(dict(second).get("args", ())),
                     "; ".join("%s fresh=%r second=%r" % d for d in diffs[:4]))))
    # the class-level defaults must not have been modified by either build
    from behave.configuration import Configuration
    leaked = {k: val for k, val in Configuration.defaults.items() if _SNAP["defaults"].get(k, ABSENT) != val}
    leaked.update({k: ABSENT for k in _SNAP["defaults"] if k not in Configuration.defaults})
    if leaked and not v:
        v.append(({"subcheck": "rebuild", "clause": "class-defaults-modified"},
                  "Configuration.defaults changed by building %s then %s: %r"
                  % (describe_files(spec_a), describe_files(spec_b), sorted(leaked))))
    reset_state()
    nt = (repr(spec_a), repr(spec_b)) if first != second else None
    return {"v": v, "nt": nt, "out": ("rebuild", digest(second)), "dg": (fresh, first, second), "n": 3}


# =============================================================== case generators
def fspec(where, name, opts=(), ud=None, boolsp=0):
    d = {"where": where, "name": name, "opts": tuple(opts)}
    if ud is not None:
        d["ud"] = tuple(ud)
    if boolsp:
        d["boolsp"] = boolsp
    return d


def on_cmd(dest):
    o = OPTS[dest]
    return bool(o["pos"]) or o["positional"]


def cmd_values(dest):
    """values expressible on the command line (a bool without --no- twin can only be switched on)"""
    o = OPTS[dest]
    if not on_cmd(dest):
        return ()
    if o["kind"] == "bool" and not o["neg"]:
        return (True,)
    return tuple(o["values"])


def gen_single(quick):
    """each option alone: placements x spellings x file names x directories x value order"""
    yield {"t": "empty"}
    for dest in DESTS:
        o = OPTS[dest]
        vals = o["values"]
        for a, b in ((vals[0], vals[1]), (vals[1], vals[0])):
            # file only
            for name in FILE_NAMES:
                for where in ("cwd", "home"):
                    yield {"t": "single", "files": (fspec(where, name, [(dest, a)]),)}
            if a not in cmd_values(dest):
                continue
            sps = cmd_spellings(dest, a)
            # command line only: every spelling; alone, then followed by another option (not last)
            for sp in sps:
                yield {"t": "single", "cmd": ((dest, a, sp),)}
                other = "stop" if dest != "stop" else "dry_run"
                if other in OPTS and sp[0] != "positional":
                    yield {"t": "single", "cmd": ((dest, a, sp), (other, True, ("flag", OPTS[other]["pos"][-1])))}
            # both, different values: file says b, command line says a
            for name in FILE_NAMES:
                for where in ("cwd", "home"):
                    for sp in (sps if (name in ("behave.ini", TOML_NAME) and where == "cwd") else sps[:1]):
                        yield {"t": "single", "files": (fspec(where, name, [(dest, b)]),), "cmd": ((dest, a, sp),)}
            # option with optional value given bare (= its documented const): last on the line, not last, against a file
            if o["bare"] and a == vals[0]:
                for w in [w for w in o["pos"] if w.startswith("--")]:
                    sp = ("flag", w)
                    yield {"t": "single", "cmd": ((dest, o["const"], sp),)}
                    yield {"t": "single", "cmd": ((dest, o["const"], sp), ("stop", True, ("flag", "--stop")))}
                    yield {"t": "single", "cmd": (("stop", True, ("flag", "--stop")), (dest, o["const"], sp))}
                    for name in ("behave.ini", TOML_NAME):
                        yield {"t": "single", "files": (fspec("cwd", name, [(dest, a)]),),
                               "cmd": ((dest, o["const"], sp), ("stop", True, ("flag", "--stop")))}
                        yield {"t": "single", "files": (fspec("cwd", name, [(dest, a)]),),
                               "cmd": ((dest, o["const"], sp),)}
            # both, same value (must not duplicate for scalars)
            yield {"t": "single", "files": (fspec("cwd", "behave.ini", [(dest, a)]),), "cmd": ((dest, a, sps[0]),)}


def gen_boolspell():
    for dest in DESTS:
        if OPTS[dest]["kind"] != "bool":
            continue
        for val in (True, False):
            for i in range(len(BOOL_TRUE)):
                for name in INI_NAMES[:2] if i else INI_NAMES:
                    yield {"t": "boolspelling", "files": (fspec("cwd", name, [(dest, val)], boolsp=i),)}
                # a file value in every spelling is still overridden by the command line
                other = not val
                if other in cmd_values(dest):
                    yield {"t": "boolspelling", "files": (fspec("home", "behave.ini", [(dest, val)], boolsp=i),),
                           "cmd": ((dest, other, cmd_spellings(dest, other)[0]),)}


def placements(dest, swap):
    """non-empty placements of one option: list of (file value or ABSENT, cmd value or ABSENT)"""
    vals = OPTS[dest]["values"]
    a, b = (vals[1], vals[0]) if swap else (vals[0], vals[1])
    out = [(a, ABSENT)]
    cv = cmd_values(dest)
    if a in cv:
        out.append((ABSENT, a))
    if b in cv:
        out.append((a, b))
    elif a in cv:
        out.append((b, a))
    return out


def switch_conflict(assign):
    """True when a mode switch would be (expected) on together with an option it rewrites"""
    eff = {}
    for dest, fval, cval in assign:
        eff[dest] = cval if cval is not ABSENT else fval
    for sw, targets in REWRITES.items():
        if eff.get(sw) is True and any(t in eff for t in targets):
            return True
    return False


def combo_spec(tag, assign, name, where, layout="sibling"):
    fopts = [(d, fv) for d, fv, cv in assign if fv is not ABSENT]
    cmd = [(d, cv, cmd_spellings(d, cv)[0]) for d, fv, cv in assign if cv is not ABSENT]
    spec = {"t": tag, "layout": layout}
    if fopts:
        spec["files"] = (fspec(where, name, fopts),)
    if cmd:
        spec["cmd"] = tuple(cmd)
    return spec


def gen_combos(dests, k, tag, filevariants, swaps=(False, True)):
    for group in itertools.combinations(dests, k):
        for swap in swaps:
            pls = [placements(d, swap) for d in group]
            for combo in itertools.product(*pls):
                assign = [(d, fv, cv) for d, (fv, cv) in zip(group, combo)]
                if switch_conflict(assign):
                    continue
                has_file = any(fv is not ABSENT for _, fv, _ in assign)
                for name, where in (filevariants if has_file else filevariants[:1]):
                    yield combo_spec(tag, assign, name, where)


def gen_subsets(dests, filevariants):
    """every subset in the file x every subset on the command line over a small set of options
    (each option: nowhere / file / cmd / both with different values)"""
    pls = [[(ABSENT, ABSENT)] + placements(d, False) for d in dests]
    for combo in itertools.product(*pls):
        assign = [(d, fv, cv) for d, (fv, cv) in zip(dests, combo) if not (fv is ABSENT and cv is ABSENT)]
        if not assign or switch_conflict(assign):
            continue
        has_file = any(fv is not ABSENT for _, fv, _ in assign)
        for name, where in (filevariants if has_file else filevariants[:1]):
            yield combo_spec("subsets", assign, name, where)


def gen_all_at_once():
    switches = set(REWRITES)
    dests = [d for d in DESTS if d not in switches]
    for swap in (False, True):
        for mode in ("file", "cmd", "both"):
            assign = []
            for d in dests:
                pl = placements(d, swap)
                if mode == "file":
                    assign.append((d,) + pl[0])
                elif mode == "cmd":
                    c = [p for p in pl if p[0] is ABSENT]
                    if c:
                        assign.append((d,) + c[0])
                else:
                    assign.append((d,) + pl[-1])
            for name in ("behave.ini", TOML_NAME):
                for where in ("cwd", "home"):
                    yield combo_spec("all-at-once", assign, name, where)
                if mode == "cmd":
                    break
    # the switches that are off everywhere: explicit false in file, --no- twin on the command line
    for sw in sorted(switches):
        if sw in OPTS:
            assign = [(sw, False, ABSENT)] + [(d,) + placements(d, False)[0] for d in dests]
            yield combo_spec("all-at-once", assign, "behave.ini", "cwd")


def gen_multifile(quick):
    """two config files: disjoint options must both take effect; same option: either (cmd still wins); userdata"""
    scal = [d for d in DESTS if OPTS[d]["kind"] in ("bool", "int", "level", "text", "choice", "enum")
            and d not in REWRITES]
    if quick:
        scal = [d for d in scal if d in CORE10 or d in ("stop", "lang", "tag_expression_protocol")]
    locs = [(("home", "behave.ini"), ("cwd", "behave.ini")), (("home", TOML_NAME), ("cwd", "setup.cfg")),
            (("cwd", "tox.ini"), ("cwd", "behave.ini")), (("cwd", TOML_NAME), ("cwd", ".behaverc")),
            (("home", "setup.cfg"), ("home", "behave.ini"))]
    for i, x in enumerate(scal):
        y = scal[(i + 1) % len(scal)]
        vx, vy = OPTS[x]["values"], OPTS[y]["values"]
        for l1, l2 in locs:
            yield {"t": "multifile", "files": (fspec(l1[0], l1[1], [(x, vx[0])]), fspec(l2[0], l2[1], [(y, vy[0])]))}
            yield {"t": "multifile", "files": (fspec(l1[0], l1[1], [(x, vx[0])]), fspec(l2[0], l2[1], [(x, vx[1])]))}
            if vx[0] in cmd_values(x):
                yield {"t": "multifile", "files": (fspec(l1[0], l1[1], [(x, vx[1])]), fspec(l2[0], l2[1], [(x, vx[1])])),
                       "cmd": ((x, vx[0], cmd_spellings(x, vx[0])[0]),)}
    for l1, l2 in locs:
        for ud1, ud2 in (((("foo", "F1"),), None), (None, (("foo", "F2"),)), ((("foo", "F1"),), (("bar", "B2"),)),
                         ((("foo", "F1"),), (("foo", "F2"),))):
            for udc in ((), (("sep", "foo=C"),)):
                o1 = [("stop", True)] if ud1 is None else []
                o2 = [("stop", True)] if ud2 is None else []
                spec = {"t": "multifile-userdata",
                        "files": (fspec(l1[0], l1[1], o1, ud1), fspec(l2[0], l2[1], o2, ud2))}
                if udc:
                    spec["ud_cmd"] = udc
                yield spec


PATH_ALPHABET = ("features", "features/sub/x.feature", "../up/f", "./dot/../y", "/abs/dir/z.feature", "a b/c")
OUT_ALPHABET = ("out/o1.txt", "o2.txt", "../o3.txt", "/abs/o4.txt")


def gen_paths(quick):
    layouts = ("sibling", "parent", "child", "deep", "same")
    names = ("behave.ini", TOML_NAME) if quick else FILE_NAMES
    for layout in layouts:
        for where in ("cwd", "home"):
            for name in names:
                # paths: every single path, every ordered pair; with/without command-line paths
                plists = [(p,) for p in PATH_ALPHABET] + [pq for pq in itertools.permutations(PATH_ALPHABET[:4], 2)]
                for pl in plists:
                    yield {"t": "paths", "layout": layout, "files": (fspec(where, name, [("paths", pl)]),)}
                for pl in plists[:3]:
                    yield {"t": "paths", "layout": layout, "files": (fspec(where, name, [("paths", pl)]),),
                           "cmd": (("paths", ("cli/feat", "./cli2/../z.feature"), ("positional",)),)}
                # outfiles alone (no format in the file)
                for ol in [(o,) for o in OUT_ALPHABET] + [OUT_ALPHABET[:2], OUT_ALPHABET[::-1]]:
                    yield {"t": "paths", "layout": layout, "files": (fspec(where, name, [("outfiles", ol)]),)}
    # format/outfiles coupling: #formats 0..3 x #outfiles 0..3 (every combination, more formats than outfiles and
    # the reverse) x command-line formats/outfiles x every file name x {cwd, HOME} x every layout
    fmts = ("plain", "json", "progress")
    for layout in layouts:
        for where in ("cwd", "home"):
            for name in FILE_NAMES:
                for n in (0, 1, 2, 3):
                    for m in (0, 1, 2, 3):
                        if n == 0 and m == 0:
                            continue
                        fo = []
                        if n:
                            fo.append(("format", fmts[:n]))
                        if m:
                            fo.append(("outfiles", OUT_ALPHABET[:m]))
                        for order in ((0, 1), (1, 0)) if len(fo) == 2 else ((0,),):
                            fopts = [fo[i] for i in order]
                            for cf, co in ((0, 0), (1, 0), (1, 1), (2, 1)):
                                if order != (0, 1) and order != (0,) and (cf, co) != (1, 1):
                                    continue
                                cmd = []
                                if cf:
                                    cmd.append(("format", ("pretty", "rerun")[:cf], ("sep", "-f")))
                                if co:
                                    cmd.append(("outfiles", ("cli_out/c1.txt",), ("sep", "-o")))
                                spec = {"t": "coupling", "layout": layout, "files": (fspec(where, name, fopts),)}
                                if cmd:
                                    spec["cmd"] = tuple(cmd)
                                yield spec


READCONF_DIRS = ("conf", "../other", "sub/deep/er", "./dot", "abs")


def gen_readconf():
    """read_configuration(path) on a config file in ANOTHER directory than cwd and HOME (path with a directory
    part, relative or absolute) x file names x #formats 0..3 x #outfiles 0..3 x key order x with/without paths"""
    for where in READCONF_DIRS:
        for name in FILE_NAMES:
            for n in (0, 1, 2, 3):
                for m in (0, 1, 2, 3):
                    for order in ((0, 1), (1, 0)) if (n and m) else ((0, 1),):
                        for with_paths in (False, True):
                            if n == 0 and m == 0 and not with_paths:
                                continue
                            yield (where, name, n, m, order, with_paths)


def run_readconf(case):
    where, name, n, m, order, with_paths = case
    from behave.configuration import read_configuration
    reset_state()
    fmts = ("plain", "json", "progress")[:n]
    outs = OUT_ALPHABET[:m]
    paths = ("features/a", "../up/b.feature", "/abs/c") if with_paths else ()
    fo = [("format", fmts), ("outfiles", outs)]
    fopts = [fo[i] for i in order if fo[i][1]]
    if paths:
        fopts.insert(1 if len(fopts) > 1 else 0, ("paths", paths))
    root = tempfile.mkdtemp(prefix="c20-%s-" % RUN_TAG, dir="/dev/shm")
    cwd = os.path.join(root, "t", "work")
    confdir = os.path.join(root, "t", "elsewhere") if where == "abs" else os.path.normpath(os.path.join(cwd, where))
    arg = os.path.join(confdir, name) if where == "abs" else os.path.join(where, name)
    cwd_tok = os.path.join(S_TOKEN, "t", "work")
    conf_tok = confdir.replace(root, S_TOKEN)
    old_out = sys.stdout
    v, got = [], None
    try:
        os.makedirs(cwd)
        os.makedirs(confdir, exist_ok=True)
        with open(os.path.join(confdir, name), "w") as fh:
            fh.write(render_file(fspec("cwd", name, fopts)))
        os.chdir(cwd)
        sys.stdout = io.StringIO()
        try:
            data = read_configuration(arg)
            got = {k: norm_value(data.get(k), root) for k in ("format", "outfiles", "paths")}
        except Exception as e:
            got = ("EXC", type(e).__name__, norm_value(str(e), root))
    finally:
        sys.stdout = old_out
        os.chdir(_SNAP["cwd"])
        shutil.rmtree(root, ignore_errors=True)
    fk = "toml" if name == TOML_NAME else "ini"
    shown = "read_configuration(%r) [cwd=<S>/t/work, file in %s: %s]" % (arg.replace(root, S_TOKEN), conf_tok, fopts)
    if isinstance(got, tuple):
        v.append(({"subcheck": "options", "clause": "build-raises", "exc": got[1], "trigger": "read_configuration:" + fk},
                  "%s raised %s: %s" % (shown, got[1], got[2])))
        return {"v": v, "dg": got, "out": ("readconf", "exc")}
    if n < m and n:
        want_out = [path_key(conf_tok, outs), path_key(conf_tok, outs[:n])]     # surplus outfiles: not specified
    else:
        want_out = [path_key(conf_tok, outs) + path_key(conf_tok, ["%s.output" % f for f in fmts[m:]])]
    checks = [("format", tuple(got["format"] or ()), [tuple(fmts)], None),
              ("outfiles", path_key(cwd_tok, got["outfiles"] or ()), want_out, m),
              ("paths", path_key(cwd_tok, got["paths"] or ()), [path_key(conf_tok, paths)], None)]
    for key, g, acc, named in checks:
        if g in acc:
            continue
        desc = {"subcheck": "options", "clause": "file>default", "kind": "list", "filekind": fk}
        same_names = [a for a in acc if [os.path.basename(x) for x in a] == [os.path.basename(x) for x in g]]
        if same_names:
            desc.update(clause="relative-to-config-file", where="other-dir")
            if key == "outfiles":
                bad = [i for i, (x, y) in enumerate(zip(same_names[0], g)) if x != y]
                desc["outfile"] = "derived" if all(i >= named for i in bad) else "named"
        v.append((desc, "%s: %s expected %s, observed %r" % (shown, key, " or ".join(repr(a) for a in acc), g)))
    reset_state()
    return {"v": v, "nt": ("readconf", case) if (n or m or with_paths) else None,
            "out": ("readconf", n, m, where == "abs", digest(sorted(got.items()))), "dg": sorted(got.items())}


DEFINE_NAMES = ("foo", "ns.key")
DEFINE_VALUES = ("", "bar", "a=b", " padded ", '"q"', "'q'", '"a=b"', '" in "', "\"q'", 'q"r', '"')


def gen_defines():
    seen = set()
    for name in DEFINE_NAMES:
        texts = [name]
        for eq in ("=", " = "):
            for val in DEFINE_VALUES:
                texts.append(name + eq + val)
        for t in texts:
            for q in ("", '"', "'"):
                for pad in ("", "  "):
                    text = pad + q + t + q + pad
                    if text in seen:
                        continue
                    seen.add(text)
                    yield (text, ("sep", "long", "eq", "glued"))


def gen_userdata_override(quick):
    fud = (("foo", "F"), ("bar", "B"), ("ns.key", "N"))
    for name in FILE_NAMES:
        for where in ("cwd", "home"):
            for r in range(0, 3):
                for names in itertools.combinations(("foo", "bar", "baz", "ns.key"), r):
                    udc = tuple(("sep", "%s=C_%s" % (n, n)) for n in names)
                    spec = {"t": "userdata-override", "files": (fspec(where, name, [], fud),)}
                    if udc:
                        spec["ud_cmd"] = udc
                    yield spec
            yield {"t": "userdata-override", "files": (fspec(where, name, [], fud),),
                   "ud_cmd": (("sep", "foo"), ("long", "bar="), ("eq", "baz='x y'"))}
            yield {"t": "userdata-override", "files": (fspec(where, name, [], fud),),
                   "ud_cmd": (("sep", "foo=1"), ("sep", "foo=2"))}
            # userdata together with ordinary options in the same file / command line
            yield {"t": "userdata-override", "files": (fspec(where, name, [("stop", True), ("jobs", "2")], fud),),
                   "ud_cmd": (("sep", "bar=C"),), "cmd": (("jobs", "3", ("sep", "--jobs")),)}


def rebuild_specs(quick):
    specs = [{"t": "rebuild"}]
    dests = [d for d in DESTS if d in CORE10 or d in ("tag_expression_protocol", "scenario_outline_annotation_schema",
                                                      "name", "paths", "default_tags", "stop")] if quick else DESTS
    for d in dests:
        v = OPTS[d]["values"]
        specs.append({"t": "rebuild", "files": (fspec("cwd", "behave.ini", [(d, v[0])]),)})
        if not quick:
            specs.append({"t": "rebuild", "files": (fspec("home", TOML_NAME, [(d, v[1])]),)})
        if v[0] in cmd_values(d) and d not in REWRITES:
            specs.append({"t": "rebuild", "cmd": ((d, v[0], cmd_spellings(d, v[0])[0]),)})
    specs.append({"t": "rebuild", "files": (fspec("cwd", "behave.ini", [], (("foo", "F"), ("bar", "B"))),)})
    specs.append({"t": "rebuild", "files": (fspec("cwd", TOML_NAME, [], (("foo", "T"),)),)})
    specs.append({"t": "rebuild", "ud_cmd": (("sep", "foo=C"), ("sep", "flag"))})
    specs.append({"t": "rebuild", "files": (fspec("home", "behave.ini", [("format", ("plain",)), ("tags", ("@a",))],
                                                   (("foo", "H"),)),),
                  "cmd": (("format", ("json",), ("sep", "-f")), ("tags", ("@c",), ("sep", "--tags"))),
                  "ud_cmd": (("sep", "bar=C"),)})
    for sw in sorted(REWRITES):
        if sw in OPTS:
            specs.append({"t": "rebuild", "cmd": ((sw, True, ("flag", OPTS[sw]["pos"][-1])),)})
    return specs


def gen_rebuild(quick):
    specs = rebuild_specs(quick)
    if quick:
        targets = [s for i, s in enumerate(specs) if i % 3 == 0 or "ud_cmd" in s or not s.get("files")]
    else:
        targets = specs
    for a in specs:
        for b in targets:
            yield (a, b)


# =============================================================== driver
def run(ctx):
    init_worker()
    quick = ctx.quick
    from behave import configuration as C
    theirs = [o.dest for o in C.configfile_options_iter(None)]
    ctx.guard(sorted(theirs) == sorted(DESTS),
              "option list derived from OPTIONS equals behave's own config-file schema (%d vs %d: %s)"
              % (len(DESTS), len(theirs), sorted(set(theirs) ^ set(DESTS))))
    ctx.guard(len(DESTS) >= 38, "at least 38 file-configurable options derived from OPTIONS (%d)" % len(DESTS))
    unknown = [d for d in DESTS if OPTS[d]["kind"] == "unknown" or len(OPTS[d]["values"]) < 2]
    ctx.guard(not unknown, "every option has a known kind and two legal values (unknown: %s)" % unknown)
    ctx.guard(all(d in DOC_DEFAULTS for d in DESTS),
              "documented default known for every option (missing: %s)" % [d for d in DESTS if d not in DOC_DEFAULTS])
    ctx.guard(all(d in OPTS for d in CORE10), "the 10-option core exists in OPTIONS")
    kinds = collections.Counter(OPTS[d]["kind"] for d in DESTS)
    ctx.note("options", {d: OPTS[d]["kind"] for d in DESTS})
    ctx.note("option_kinds", dict(kinds))
    ctx.guard(all(kinds[k] for k in ("bool", "choice", "int", "level", "enum", "text", "list")),
              "every option kind occurs (%s)" % dict(kinds))
    ctx.guard(not UNPAIRED, "every --no- switch has a positive counterpart by name (unpaired: %s)" % UNPAIRED)
    twins = [d for d in DESTS if OPTS[d]["neg"]]
    ctx.guard(len(twins) >= 10, "at least 10 options with a --no- twin (%d)" % len(twins))
    pair_dests = list(CORE10) if quick else list(DESTS)
    ctx.bounds = {"options": len(DESTS), "values_per_option": 2, "pairs_over": len(pair_dests),
                  "triples_over": 0 if quick else len(CORE10),
                  "full_subset_product_over": len(SUBSET_QUICK if quick else SUBSET_FULL), "file_names": list(FILE_NAMES),
                  "layouts": sorted(LAYOUTS), "define_values": len(DEFINE_VALUES), "getter_values": len(GETTER_VALUES)}
    fv = (("behave.ini", "cwd"), (TOML_NAME, "cwd"), ("behave.ini", "home"), (TOML_NAME, "home"))

    ctx.sweep(run_build, gen_single(quick), chunk=32, name="single option x placements x spellings")
    ctx.sweep(run_build, gen_boolspell(), chunk=32, name="ini boolean spellings")
    fv_pairs = fv if quick else fv + ((".behaverc", "home"), ("tox.ini", "cwd"), ("setup.cfg", "home"))
    ctx.sweep(run_build, gen_combos(pair_dests, 2, "pair", fv_pairs), chunk=32,
              name="pairs of options (%s)" % ("core" if quick else "all"))
    if not quick:
        ctx.sweep(run_build, gen_combos(CORE10, 3, "triple", fv[1:3]), chunk=32, name="triples of core options")
    sub = SUBSET_QUICK if quick else SUBSET_FULL
    ctx.guard(all(d in OPTS for d in sub), "the subset core exists in OPTIONS")
    ctx.sweep(run_build, gen_subsets(sub, fv[:2]), chunk=32,
              name="all file subsets x all cmd subsets of %d options" % len(sub))
    ctx.sweep(run_build, gen_all_at_once(), chunk=4, name="all options at once")
    ctx.sweep(run_build, gen_multifile(quick), chunk=32, name="two config files")
    ctx.sweep(run_build, gen_paths(quick), chunk=32, name="paths/outfiles resolution, format coupling")
    ctx.sweep(run_readconf, gen_readconf(), chunk=32, name="read_configuration(path) in another directory")
    src_names = consumer_names_in_source()
    ctx.guard(src_names == set(CONSUMERS),
              "the userdata names behave's reporters/formatters read at construction equal the CONSUMERS table (%s)"
              % sorted(src_names ^ set(CONSUMERS)))
    ctx.sweep(run_consumer, gen_consumers(quick), chunk=32,
              name="userdata consumers built at construction (reporters, formatter)")
    ctx.sweep(run_names, gen_names(quick), chunk=32,
              name="case-sensitive names: userdata, formatter and runner aliases")
    ctx.sweep(run_encoding, gen_encoding(quick), chunk=32,
              name="non-ASCII config text x kind of sys.stdout (Configuration)")
    ctx.sweep(run_read_enc, gen_read_enc(quick), chunk=8,
              name="non-ASCII config text x kind of sys.stdout (read_configuration)")
    ctx.sweep(run_handover, gen_handover(quick), chunk=32,
              name="userdata handed over (none/dict/UserData/+view) x -D x config file; setup_userdata() again")
    ctx.sweep(run_define, gen_defines(), chunk=8, name="-D grammar")
    ctx.sweep(run_build, gen_userdata_override(quick), chunk=32, name="userdata file vs -D")
    getters = [(g, val, dg, via) for g in ("getint", "getfloat", "getbool", "getas_int") for val in GETTER_VALUES
               for dg in (False, True)
               for via in (("direct", "cmd", "ini", "toml") if isinstance(val, str) and val != "" else ("direct",))]
    ctx.sweep(run_getter, getters, chunk=32, name="UserData getters x values")
    ctx.sweep(run_rebuild, gen_rebuild(quick), chunk=16, name="two builds in one process: second == fresh")

    ctx.guard(len(ctx.nt) > (1500 if quick else 20000), "enough distinct non-trivial cases (%d)" % len(ctx.nt))
    ctx.guard(len(ctx.outcomes) > 200, "at least 200 distinct observed outcomes (%d)" % len(ctx.outcomes))
    leftovers = [n for n in os.listdir("/dev/shm") if n.startswith("c20-%s-" % RUN_TAG)]
    ctx.guard(not leftovers, "no scratch directory left behind (%d)" % len(leftovers))
