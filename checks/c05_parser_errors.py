# -*- coding: utf-8 -*-
"""C05 - parser error discipline: only ParserError, with a usable line number.

Engine E2 (explicit-state breadth-first search over line histories, on the
real ``behave.parser.Parser`` driven through the five real entry points) plus
the no-dedup enumeration of all short line sequences (which also validates the
canonical abstraction as a transition *function*) plus engine E3 (every
single-line mutation of valid rendered documents, and the catalogued grammar
faults at every position where a small reference acceptor says they are
faults).
"""
import collections
from vlib.core import digest
from vlib import parser_search as ps
from vlib import gherkin_render as gr

PROPERTY = "C05"
LEVEL = "model_checking"
RULE = ("Alphabet: 33 plain line kinds + 19 hostile-text twins (same keyword / cell count, the name, cell, tag word, "
        "free text made of the str.format and %-interpolation metacharacters '{name} {} } { %s %(x)s %') = 52 kinds (+ 2 step kinds whose text ends with a colon). "
        "Plain kinds: (block keyword lines in en and de, step lines given/when/then/and/but/*, a de step, "
        "tag line, malformed tag line, table rows of 1/2 cells and one without closing pipe, both doc-string quotes, "
        "free text, text indented less than an open doc-string, comment, '# language: de', '# language: zz', blank, "
        "whitespace-only). E2: breadth-first search over line histories for each of the 5 entry points "
        "(parse_feature/parse_rule/parse_scenario/parse_steps/parse_tags), one real parse per history, states "
        "deduplicated by the canonical abstraction read off the real Parser object, searched until the frontier is "
        "empty; every history is also terminated (EOF action). No-dedup: ALL sequences of <= 3 lines over all 52 kinds "
        "(both tiers) and, thorough, ALL sequences of exactly 4 lines over the 33 plain kinds (hostile kinds differ "
        "from their twins in text only) per entry point, which also checks that (abstract state, line kind) determines (next "
        "abstract state, outcome class) and that no abstract state or violation class exists that the search did not "
        "find. E3: every single-line mutation (insert each of the 33 plain (quick) / all 52 (thorough) line kinds at each "
        "position, delete, duplicate, "
        "swap adjacent, 3 truncations per line) of rendered valid documents (every 20th of all feature shapes with "
        "<= 4 blocks in quick, all of them in thorough, plus step/scenario/rule/tag texts), and 9 catalogued fault "
        "kinds (second Feature, text after steps, Examples outside an outline, And/But without predecessor, row with "
        "one cell too many/few, malformed tag token, second Background, Background after a Scenario, table/doc-string "
        "before any step, doc-string content indented less than the opening quotes) inserted at every position where the reference acceptor calls them a fault (there: "
        "ParserError with .line == injected line); every such fault additionally with each of the 7 hostile atoms "
        "('{name}', '{}', '{', '}', '%s', '%(x)s', '%') placed in the faulty line and, separately, in the line before "
        "it (quick: the atoms rotate over the positions, every fault kind meets every atom in both placements; "
        "thorough: every atom at every position). The malformed tag line is also checked inside both searches (a ParserError raised for it must carry "
        "its own line number, whatever blank / comment lines precede it) and at every position of multi-line tag texts "
        "with blank and comment-only lines through parse_tags. The breadth-first search is repeated with the documented environment switch "
        "BEHAVE_STRIP_STEPS_WITH_TRAILING_COLON=yes (a private copy of behave/parser.py executed with the variable set, "
        "os.environ restored; 33 plain kinds + 2 step kinds whose text ends with ':') for parse_feature / parse_rule / "
        "parse_scenario / parse_steps. A raised ParserError must also be printable (str()). Library use: parse / parse_rule / "
        "parse_scenario / parse_steps called on objects of Parser SUBCLASSES (own constructor signature with one "
        "settings argument; signature-compatible constructor that counts its calls; no override) over all texts of "
        "<= 2 lines: same invariant, same outcome as the module-level function, constructor run exactly once. "
        "Parser reuse (what Context.execute_steps does): ALL "
        "sequences of <= 2 (quick) / <= 3 (thorough) calls of parse / parse_steps / parse_scenario / parse_rule / "
        "parse_tags on ONE Parser object over 26 (method, text) operations (valid Given/When/Then texts, texts "
        "starting with And / But / *, texts that raise mid-document, a doc-string left open, a table / tags / Examples "
        "pending at the end, a '# language: de' feature); every call must give the same model or the same exception "
        "class and line as on a fresh Parser with the same language and variant, and must not modify a model "
        "returned earlier. Invariant everywhere: model/None or ParserError with 1 <= line <= number of lines, "
        "never another exception, at most one action call per line and pass. A history is non-trivial (counted "
        "distinct by (entry, abstract state, line kind)) when the line changes the abstract state or raises; a "
        "mutation is non-trivial when it changes the outcome of the document (counted by fault kind / mutation kind "
        "x zone).")
ASSUMPTIONS = [
    "line texts are fixed per kind (a plain one and, for 19 kinds, a hostile one built from str.format / %-interpolation "
    "metacharacters): names/cell texts are never read back by the parser (part of the abstraction argument; checked: "
    "hostile twins reach the same abstract states)",
    "hostile atoms cover the two formatting mechanisms used in Python messages (str.format, % interpolation); other "
    "text classes (control characters, very long lines, non-BMP unicode) are not varied",
    "a line that behave's documented grammar takes as free-form description text (keyword-like lines directly after a "
    "Feature/Rule/Background/Scenario header) is not counted as an injected fault: the statement is silent there",
    "the language argument of the parse_* functions is not varied here (only '# language:' lines); C04 varies it",
    "termination is checked as 'finitely many per-line dispatches' (<= 1 per line and pass; parse_steps makes two passes)",
    "vacuity of 'every raise site reached' is measured from the observed ParserError sites, not with the coverage package",
]

NK = ps.NK


def init_worker():
    ps.install()


# ================================================================ E2: breadth-first search
def bfs_expand(case):
    """case = (entry, history): executes all NK one-line extensions of a frontier history"""
    mode = case[2] if len(case) == 3 else ""
    if mode.endswith("one"):
        return bfs_single(case)
    entry, hist = case[0], case[1]
    # mode "on": the same search in a private copy of behave.parser executed with
    # BEHAVE_STRIP_STEPS_WITH_TRAILING_COLON=yes, over the plain kinds + steps that end with ':'
    env = ps.switched_env() if mode == "on" else None
    out0, dead0, s0, _, _ = ps.run_history(entry, hist, env)
    res = []
    for k in (ps.SWITCH_ON_KINDS if env else range(NK)):
        h = hist + (k,)
        text = ps.text_of(h)
        out, dead, s, calls, _ = ps.run_text(entry, text, len(h), env)
        where = "history [%s]%s" % (ps.names_of(h), SWITCH_NOTE if env else "")
        v = ps.invariant(entry, text, out, calls, where)
        v += ps.fault_line_violation(entry, h, not dead0, dead, out)
        if env:
            for d, _ in v:
                d["switch"] = "strip-colon"
        oc = ps.outclass(out, len(h))
        changed = dead or s != s0
        res.append({"case": (entry, h, "on-one" if env else "one"), "v": v,
                    "nt": (entry, mode, s0, k) if changed else None,
                    "out": (entry, mode) + tuple(x for x in oc if not isinstance(x, int)),
                    "dg": (out, dead, s, calls),
                    "keep": (s0, k, s, h, dead, oc, tuple(sorted(tuple(sorted(d.items())) for d, _ in v))),
                    "st": {"transitions": 1, "traces": 1}})
    return res


def bfs_single(case):
    """replay form of one BFS history"""
    entry, hist = case[0], case[1]
    env = ps.switched_env() if len(case) > 2 and case[2].startswith("on") else None
    text = ps.text_of(hist)
    pdead = ps.run_history(entry, hist[:-1], env)[1] if hist else True
    out, dead, s, calls, _ = ps.run_text(entry, text, len(hist), env)
    v = ps.invariant(entry, text, out, calls, "history [%s]%s" % (ps.names_of(hist), SWITCH_NOTE if env else ""))
    v += ps.fault_line_violation(entry, hist, not pdead, dead, out)
    if env:
        for d, _ in v:
            d["switch"] = "strip-colon"
    return {"v": v, "dg": (out, dead, s)}


SWITCH_NOTE = " (behave.parser executed with BEHAVE_STRIP_STEPS_WITH_TRAILING_COLON=yes)"


def run_bfs(ctx, entry, mode=""):
    out, dead, s0, calls, _ = ps.run_history(entry, (), ps.switched_env() if mode == "on" else None)
    ctx.guard(not dead and s0 is not None, "entry %s: the empty text is accepted" % entry)
    seen = {s0: ()}
    trans = {}
    vclasses = set()
    pe_sites = set()
    frontier = [()]
    depth = 0
    while frontier:
        depth += 1
        if depth > 40:
            ctx.cap("bfs depth 40 for entry %s" % entry)
            break
        kept = ctx.sweep(bfs_expand, [(entry, h, mode) if mode else (entry, h) for h in frontier], chunk=2,
                         name="bfs %s%s depth %d" % (entry, " [strip-colon switch on]" if mode else "", depth), keep=True)
        kept.sort(key=lambda x: x[3])
        nxt = []
        for sp, k, s, h, dead, oc, vk in kept:
            trans[(sp, k)] = (None if dead else s, oc)
            vclasses.update(vk)
            if oc[0] == "PE":
                pe_sites.add(oc[1])
            if not dead and s not in seen:
                seen[s] = h
                nxt.append(h)
        frontier = nxt
    ctx.st["states"] += len(seen)
    return {"states": seen, "trans": trans, "depth": depth - 1, "vclasses": vclasses, "pe_sites": pe_sites}


# ================================================================ no-dedup enumeration
_WSEEN = {}


def enum_case(case):
    """("enum", entry, prefix, maxlen): every extension of prefix up to maxlen lines (prefix included);
    ("one", entry, history): replay form"""
    if case[0] == "one":
        return bfs_single(case[1:])
    _, entry, prefix, maxlen, nk, minlen = case
    counts = collections.Counter()
    viol = {}
    obs = []
    new_trans = []
    nt = set()
    parent_abs = None
    if prefix:
        _, pdead, ps0, _, _ = ps.run_history(entry, prefix[:-1])
        parent_abs = None if pdead else ps0
    stack = [(prefix, parent_abs, bool(prefix))]
    n = 0
    while stack:
        h, pabs, has_parent = stack.pop()
        text = ps.text_of(h)
        out, dead, s, calls, _ = ps.run_text(entry, text, len(h))
        n += 1
        oc = ps.outclass(out, len(h))
        if len(h) < minlen:             # shorter histories are executed (and counted) by another case
            n -= 1
            nabs = None if dead else s
            for k in range(nk - 1, -1, -1):
                stack.append((h + (k,), nabs, True))
            continue
        obs.append((out, dead, s))
        counts[(entry,) + tuple(x for x in oc if not isinstance(x, int))] += 1
        found = ps.invariant(entry, text, out, calls, "history [%s]" % ps.names_of(h))
        found += ps.fault_line_violation(entry, h, has_parent and pabs is not None, dead, out)
        for d, msg in found:
            key = tuple(sorted(d.items()))
            if key not in viol:
                viol[key] = [d, msg, h, 0]
            viol[key][3] += 1
        if has_parent and pabs is not None:
            key = (entry, pabs, h[-1])
            val = (None if dead else s, oc)
            if _WSEEN.get(key) != val:
                new_trans.append((key, val))
                _WSEEN.setdefault(key, val)
            if dead or s != pabs:
                nt.add(key)
        if len(h) < maxlen:
            nabs = None if dead else s
            for k in range(nk - 1, -1, -1):
                stack.append((h + (k,), nabs, True))
    res = []
    first = True
    for oc, cnt in sorted(counts.items(), key=repr):
        r = {"out": oc, "n": cnt, "case": case}
        if first:
            r["dg"] = digest(obs)
            r["keep"] = (new_trans, sorted(viol))
            r["st"] = {"traces": n}
            first = False
        res.append(r)
    for key in nt:
        res.append({"nt": key, "n": 0, "case": case})
    for key, (d, msg, h, cnt) in sorted(viol.items()):
        res.append({"v": [(d, msg)] * cnt, "n": 0, "case": ("one", entry, h)})
    return res


def enum_cases(entry, maxlen):
    """All sequences of <= 3 lines over the full alphabet (plain + hostile-text kinds); sequences of exactly
    4 lines (thorough) over the 33 plain kinds only: hostile kinds differ from their plain twins in text alone."""
    top = min(3, maxlen)
    yield ("enum", entry, (), min(1, top), NK, 0)
    if top >= 2:
        for a in range(NK):
            for b in range(NK):
                yield ("enum", entry, (a, b), top, NK, 0)
    if maxlen >= 4:
        for a in range(ps.PLAIN_NK):
            for b in range(ps.PLAIN_NK):
                yield ("enum", entry, (a, b), 4, ps.PLAIN_NK, 4)


# ================================================================ E3: single-line mutations of valid documents
FAULT_LINES = {
    "second-feature": u"Feature: second feature",
    "text-after-steps": u"    plain text that is no step",
    "examples-outside-outline": u"    Examples: misplaced",
    "and-without-predecessor": u"    And no predecessor",
    "but-without-predecessor": u"    But no predecessor",
    "malformed-tag": u"  @bad tag token",
    "second-background": u"  Background: second",
    "background-after-scenario": u"  Background: late",
}


def contexts(ann, lines=None):
    """Reference acceptor, part 1: the grammatical context *before* every base line (and after the last one),
    computed from the renderer's annotations of the valid document - not from behave."""
    c = {"in_doc": False, "zone": "initial", "feature": False, "stmt": None, "steps": 0, "table": None,
         "level": "feature", "fbg": False, "rbg": False, "scen": False}
    out = [dict(c)]
    for i, (kind, info) in enumerate(ann):
        if kind == "doc_open" and lines is not None:
            c["doc_col"] = len(lines[i]) - len(lines[i].lstrip())
        if kind == "tag":
            c["zone"] = "tags"
        elif kind == "feature":
            c.update(feature=True, stmt="feature", zone="desc", level="feature", scen=False)
        elif kind == "rule":
            c.update(stmt="rule", zone="desc", level="rule", rbg=False, scen=False)
        elif kind == "background":
            c.update(stmt="background", steps=0, zone="desc")
        elif kind in ("scenario", "outline"):
            c.update(stmt=kind, steps=0, zone="desc", scen=True)
        elif kind == "desc":
            c["zone"] = "desc"
        elif kind == "step":
            c["steps"] += 1
            c["zone"] = "steps"
            if c["stmt"] == "background":
                c["fbg" if c["level"] == "feature" else "rbg"] = True
        elif kind == "row":
            c["zone"] = "table"
            c["table"] = (info[0][0], info[1])
        elif kind == "examples":
            c["zone"] = "ex_hdr"
        elif kind == "doc_open":
            c["in_doc"] = True
        elif kind == "doc_close":
            c["in_doc"] = False
            c["zone"] = "steps"
        out.append(dict(c))
    return out


def faults_at(c):
    """Reference acceptor, part 2: which catalogued single-line insertions are grammar violations in context c.
    Only definite faults are listed; positions where the documented grammar reads the line as free-form
    description text (zone 'desc') are left unspecified."""
    if c["in_doc"]:
        # inside a doc-string everything is content, except text that starts left of the opening quotes
        if c.get("doc_col", 0) >= 1:
            return [("docstring-less-indent", u" " * (c["doc_col"] - 1) + u"x is indented less than the quotes")]
        return []
    z, stmt = c["zone"], c["stmt"]
    f = []
    if c["feature"] and z in ("tags", "steps", "table", "ex_hdr"):
        f.append(("second-feature", FAULT_LINES["second-feature"]))
    if z == "steps" or (z == "table" and c["table"][0] == "step"):
        f.append(("text-after-steps", FAULT_LINES["text-after-steps"]))
    if stmt != "outline":
        f.append(("examples-outside-outline", FAULT_LINES["examples-outside-outline"]))
    if z == "desc" and stmt in ("background", "scenario", "outline") and c["steps"] == 0:
        if stmt == "background":
            supplied = c["level"] == "rule" and c["fbg"]
        else:
            supplied = c["fbg"] or (c["level"] == "rule" and c["rbg"])
        if not supplied:
            f.append(("and-without-predecessor", FAULT_LINES["and-without-predecessor"]))
            f.append(("but-without-predecessor", FAULT_LINES["but-without-predecessor"]))
    if z == "table":
        w = c["table"][1]
        f.append(("row-one-cell-too-many", u"      | " + u" | ".join([u"z"] * (w + 1)) + u" |"))
        if w >= 2:
            f.append(("row-one-cell-too-few", u"      | " + u" | ".join([u"z"] * (w - 1)) + u" |"))
    f.append(("malformed-tag", FAULT_LINES["malformed-tag"]))
    if stmt == "background" and c["steps"] >= 1 and z in ("steps", "table"):
        f.append(("second-background", FAULT_LINES["second-background"]))
    if c["scen"] and stmt in ("scenario", "outline") and z in ("steps", "table", "ex_hdr"):
        f.append(("background-after-scenario", FAULT_LINES["background-after-scenario"]))
    return f


def _hostile_line(text, atom):
    """the faulty line with a hostile atom in its text (cell count / keyword unchanged)"""
    if text.lstrip().startswith(u"|"):
        return text.replace(u"z", atom, 1)
    return text + u" " + atom


def _hostile_prev(line, kind, atom):
    """the (valid) line before the injected fault with a hostile atom in its name / cell / description / tag"""
    if kind in ("feature", "rule", "background", "scenario", "outline", "examples", "desc", "step"):
        return line + u" " + atom
    if kind == "tag":
        return line + u" @h" + atom
    if kind == "row":
        return line[:-2] + atom + u" |"
    return None


def _source(spec):
    """spec -> (entry, base lines, annotations or None)"""
    kind = spec[0]
    if kind == "feature":
        r = gr.render(gr.decorate(spec[1], seed=spec[2]))
        return "feature", r["lines"], r["ann"]
    if kind == "steps":
        r = gr.render_steps([tuple(s) for s in spec[1]])
        return "steps", r["lines"], None
    if kind == "scenario":
        r = gr.render_scenario(spec[1])
        return "scenario", r["lines"], None
    if kind == "rule":
        r = gr.render_rule(spec[1])
        return "rule", r["lines"], None
    if kind == "tags":
        return "tags", list(spec[1]), None
    raise ValueError(spec)


def _mutations(entry, lines, ann, nk=NK):
    """yields (mutation, new lines, fault name or None, expected error line or None, zone)"""
    L = len(lines)
    ctxs = contexts(ann, lines) if ann is not None else None
    for p in range(L + 1):
        zone = (ctxs[p]["zone"] if not ctxs[p]["in_doc"] else "doc") if ctxs else "-"
        for k in range(nk):
            yield ("ins", p, k), lines[:p] + [ps.KINDS[k]] + lines[p:], None, None, zone
        if ctxs:
            for name, text in faults_at(ctxs[p]):
                yield ("fault", p, name), lines[:p] + [text] + lines[p:], name, p + 1, zone
                na = len(ps.HOSTILE_ATOMS)
                for ia, atom in enumerate(ps.HOSTILE_ATOMS):
                    # quick (nk < NK): the atoms rotate over the positions (every fault kind still meets every atom
                    # in both placements - guarded); thorough: every atom at every position
                    if nk == NK or ia == p % na:
                        yield (("fault", p, name, atom, "line"), lines[:p] + [_hostile_line(text, atom)] + lines[p:],
                               name, p + 1, zone)
                    prev = _hostile_prev(lines[p - 1], ann[p - 1][0], atom) if p >= 1 else None
                    if prev is not None and (nk == NK or ia == (p + 3) % na):
                        yield (("fault", p, name, atom, "prev"), lines[:p - 1] + [prev, text] + lines[p:],
                               name, p + 1, zone)
    if entry == "tags":
        # a malformed tag word is a fault on every line of a tag text, whatever blank / comment lines precede it
        for p in range(L + 1):
            text = FAULT_LINES["malformed-tag"].strip()
            yield ("fault", p, "malformed-tag"), lines[:p] + [text] + lines[p:], "malformed-tag", p + 1, "tags"
            for atom in ps.HOSTILE_ATOMS:
                yield (("fault", p, "malformed-tag", atom, "line"), lines[:p] + [_hostile_line(text, atom)] + lines[p:],
                       "malformed-tag", p + 1, "tags")
    if entry == "steps":
        for name, text in (("table-before-step", u"      | a |"), ("docstring-before-step", u'      """')):
            yield ("fault", 0, name), [text] + lines, name, 1, "start"
            for atom in ps.HOSTILE_ATOMS:
                hostile = text.replace(u"a", atom) if u"|" in text else text + atom
                yield ("fault", 0, name, atom, "line"), [hostile] + lines, name, 1, "start"
    for p in range(L):
        zone = (ctxs[p + 1]["zone"] if not ctxs[p + 1]["in_doc"] else "doc") if ctxs else "-"
        yield ("del", p), lines[:p] + lines[p + 1:], None, None, zone
        yield ("dup", p), lines[:p + 1] + lines[p:], None, None, zone
        if p + 1 < L:
            yield ("swap", p), lines[:p] + [lines[p + 1], lines[p]] + lines[p + 2:], None, None, zone
        n = len(lines[p])
        for cut in sorted(set((n // 2, n - 1, 3))):
            if 0 <= cut < n:
                yield ("trunc", p, cut), lines[:p] + [lines[p][:cut]] + lines[p + 1:], None, None, zone


def _check_mutant(entry, new_lines, fault, want_line, where):
    text = u"\n".join(new_lines) + u"\n"
    out, dead, s, calls, _ = ps.run_text(entry, text)
    v = ps.invariant(entry, text, out, calls, where)
    if fault is not None and out[0] != "EXC":
        if out[0] == "ok":
            v.append(({"subcheck": "fault-line", "fault": fault, "clause": "accepted", "entry": "parse_" + entry},
                      "injected fault %r at line %d was accepted (no ParserError); %s" % (fault, want_line, where)))
        elif out[1] != want_line:
            v.append(({"subcheck": "fault-line", "clause": "wrong-line", "entry": "parse_" + entry, "site": out[2]},
                      "injected fault %r at line %d is reported at line %r; %s" % (fault, want_line, out[1], where)))
    return out, v


def mutate_doc(case):
    """("doc", spec[, part, nparts]): all single-line mutations of one valid document (those at positions
    p % nparts == part); ("mut", spec, mutation): replay form"""
    spec = case[1]
    part, nparts = (case[2], case[3]) if case[0] == "doc" and len(case) >= 4 else (0, 1)
    entry, lines, ann = _source(spec)
    base_text = u"\n".join(lines) + u"\n"
    base_out, _, _, calls, _ = ps.run_text(entry, base_text)
    res = []
    viol = {}
    for d, msg in ps.invariant(entry, base_text, base_out, calls, "unmutated document") if part == 0 else ():
        viol[tuple(sorted(d.items()))] = [d, msg, ("none",), 1]
    if base_out[0] != "ok" and part == 0:
        # every base document is valid
        d = {"subcheck": "e3-base", "clause": "valid-document-rejected", "entry": "parse_" + entry}
        viol.setdefault(tuple(sorted(d.items())), [d, "valid document rejected: %r\n%s" % (base_out, base_text), ("none",), 1])
    only = case[2] if case[0] == "mut" else None
    counts = collections.Counter()
    nts = set()
    obs = []
    n = 0
    nk = case[4] if case[0] == "doc" and len(case) > 4 else NK
    for mut, new_lines, fault, want_line, zone in _mutations(entry, lines, ann, nk):
        if only is not None and mut != only:
            continue
        if mut[1] % nparts != part:
            continue
        where = "mutation %r of document %r:\n%s" % (mut, spec, u"\n".join(new_lines))
        out, v = _check_mutant(entry, new_lines, fault, want_line, where)
        n += 1
        obs.append((mut, out))
        counts[(entry, "e3", out[0], out[2] if len(out) > 2 else out[1])] += 1
        if fault is not None:
            nts.add(("fault", entry, fault, zone) + tuple(mut[3:]))
        elif out != base_out:
            nts.add((mut[0], entry, zone, ps.KIND_NAMES[mut[2]] if mut[0] == "ins" else "", out[0]))
        for d, msg in v:
            key = tuple(sorted(d.items()))
            if key not in viol:
                viol[key] = [d, msg, mut, 0]
            viol[key][3] += 1
    first = True
    for oc, cnt in sorted(counts.items(), key=repr):
        r = {"out": oc, "n": cnt, "case": case}
        if first:
            r["dg"] = digest(obs)
            r["keep"] = sorted(set((k[2],) + tuple(k[4:6]) for k in nts if k[0] == "fault"))
            first = False
        res.append(r)
    for key in nts:
        res.append({"nt": key, "n": 0, "case": case})
    for key, (d, msg, mut, cnt) in sorted(viol.items()):
        res.append({"v": [(d, msg)] * cnt, "n": 0, "case": ("mut", spec, mut)})
    if not res:
        res.append({"n": 0, "case": case})
    return res


RICH = (True, ("S", "O2"), ((True, ("S", "O1")), (False, ("O1",))))


def e3_sources(quick):
    shapes = list(gr.shapes(4))
    if quick:
        picked = shapes[::20]
    else:
        picked = shapes
    nparts = 4
    nk = ps.PLAIN_NK if quick else NK       # quick inserts the plain kinds only (hostile text: fault part + searches)
    for i, sh in enumerate(picked):
        for part in range(nparts):
            yield ("doc", ("feature", sh, i * 13), part, nparts, nk)
    for seed in (1, 2):
        for part in range(2 * nparts):
            yield ("doc", ("feature", RICH, seed), part, 2 * nparts, nk)
    args = gr.step_args()
    blocks = [[("given", u"1st step", None), ("and", u"2 things <x>", args[1]), ("then", u"3rd step, longer text", args[-1])],
              [("star", u"1st step", args[-3]), ("but", u"2 things <x>", args[2]), ("when", u"3rd step, longer text", None)]]
    for b in blocks:
        yield ("doc", ("steps", b))
    scen = {"k": "scenario", "tags": [u"t1", u"t.2"], "name": u"n1", "desc": [u"(a) first description line"],
            "steps": blocks[0]}
    yield ("doc", ("scenario", scen))
    rule = {"k": "rule", "tags": [u"t1"], "name": u"n1", "desc": [u"(a) first description line"],
            "bg": {"name": u"", "desc": [], "steps": [("given", u"1st step", None)]},
            "items": [scen, {"k": "outline", "tags": [], "name": u"n <x>", "desc": [], "steps": blocks[1],
                             "examples": [{"tags": [u"t1"], "name": u"", "table": ([u"x"], [[u"1"]])}]}]}
    yield ("doc", ("rule", rule))
    yield ("doc", ("tags", [u"@t1 @t2", u"@t3  # trailing comment", u"@t4"]))
    yield ("doc", ("tags", [u"@t1 @t2", u"", u"# comment-only line", u"@t3  # trailing comment", u"   ", u"    # indented",
                            u"@t4", u""]))
    yield ("doc", ("tags", [u"", u"# c", u"@t1"]))


# ================================================================ histories of parse calls on ONE Parser object
# Context.execute_steps() calls feature.parser.parse_steps() again and again on the parser that parsed the feature.
# Differential oracle: every call on a used parser must behave exactly like the same call on a fresh Parser that
# is configured alike (same language, same variant): same model or same exception class and line.
_DQ = u'"' * 3
REUSE_OPS = (
    ("parse", u"Feature: F\n  Scenario: S\n    Given g\n    When w\n    Then t\n"),
    ("parse", u"Feature: F\n  Background: B\n    Given g\n  Scenario: S\n    And a\n    * s\n"),
    ("parse", u"Feature: F\n  Scenario: S\n    And a\n"),
    ("parse", u"Feature: F\n  Scenario: S\n    * s\n    But b\n"),
    ("parse", u"Feature: F\n  Scenario: S\n    Then t\n    free text\n    Given g\n"),
    ("parse", u"Feature: F\n  Scenario: S\n    When w\n      " + _DQ + u"\n      left open\n"),
    ("parse", u"Feature: F\n  Scenario Outline: O\n    Then t\n    @t1\n    Examples: E\n      | a |\n"),
    ("parse", u"Feature: F\n  Rule: R\n    Background: B\n      When w\n    @t1 @t2\n"),
    ("parse", u"# language: de\nFunktionalit\xe4t: F\n  Szenario: S\n    Wenn w\n"),
    ("parse", u"@t1\n"),
    ("parse_steps", u"Given g\nWhen w\nThen t\n"),
    ("parse_steps", u"And a\n"),
    ("parse_steps", u"But b\n"),
    ("parse_steps", u"* s\nAnd a\n"),
    ("parse_steps", u"Then t\nfree text\n"),
    ("parse_steps", u"When w\n  " + _DQ + u"\n  left open\n"),
    ("parse_steps", u"Given g\n  | a |\n  | b |\n"),
    ("parse_steps", u"Wenn w\n"),
    ("parse_steps", u""),
    ("parse_scenario", u"Scenario: S\n  Given g\n  Then t\n"),
    ("parse_scenario", u"Scenario: S\n  And a\n"),
    ("parse_scenario", u"@t1\nScenario: S\n  * s\n  But b\n"),
    ("parse_rule", u"Rule: R\n  Background:\n    When w\n  Scenario: S\n    And a\n"),
    ("parse_rule", u"Rule: R\n  Scenario: S\n    But b\n"),
    ("parse_tags", u"@a @b"),
    ("parse_tags", u"@a b"),
)
_VARIANT = {"parse": "feature", "parse_steps": "steps", "parse_scenario": "scenario", "parse_rule": "rule", "parse_tags": "tags"}


def _call(parser, method, text):
    """-> outcome: ("ok", extracted model) | ("PE", line) | ("EXC", class, site)"""
    P = ps.install()
    parser.variant = _VARIANT[method]       # what Context.execute_steps() does before parser.parse_steps()
    try:
        res = getattr(parser, method)(text)
    except P["ParserError"] as e:
        return ("PE", None if method == "parse_tags" else e.line), None
    except Exception as e:
        return ("EXC", type(e).__name__, ps.exc_site(e)), None
    return ("ok", _extract(method, res)), res


def _extract(method, res):
    m = ps.install()["model"]
    if res is None:
        return None
    if method == "parse" and isinstance(res, m.Feature):
        return gr.x_feature(res)
    if method == "parse_steps":
        return [gr.x_step(x) for x in res]
    if method == "parse_scenario" and isinstance(res, m.Scenario):
        return gr.x_scenario(res)
    if method == "parse_rule" and isinstance(res, m.Rule):
        return gr.x_rule(res)
    if method == "parse_tags":
        return [u"%s" % t for t in res]     # Parser.parse_tags(line) is the per-line helper: no line of its own
    return "a %s object" % type(res).__name__


def reuse_case(seq):
    """seq = indexes into REUSE_OPS: the calls are made one after the other on the same Parser object"""
    Parser = ps.install()["bp"].Parser
    used = Parser()
    v = []
    obs = []
    kept = []
    for i, k in enumerate(seq):
        method, text = REUSE_OPS[k]
        carried = used.language
        want, _ = _call(Parser(language=carried), method, text)
        got, res = _call(used, method, text)
        if got != want and method == "parse" and i > 0:
            # whether a whole feature text is read in the language an earlier '# language:' header left behind or
            # in the language the Parser was built with is C04's business (faithfulness); both are accepted here
            alt, _ = _call(Parser(), method, text)
            if got == alt:
                want = alt
        obs.append((want[0], got[0], got == want))
        kept.append((method, res, got))
        if got != want and i > 0:
            v.append(({"subcheck": "parser-reuse", "clause": "differs-from-fresh-parser", "method": method},
                      "call #%d %s(%r) on a Parser that already made the calls %r gives %r, a fresh Parser gives %r"
                      % (i + 1, method, text, [REUSE_OPS[j] for j in seq[:i]], _brief(got), _brief(want))))
        elif got != want:
            v.append(({"subcheck": "parser-reuse", "clause": "harness-first-call-differs", "method": method},
                      "%s(%r): %r vs %r" % (method, text, _brief(got), _brief(want))))
    for method, res, got in kept[:-1]:
        if got[0] == "ok" and ("ok", _extract(method, res)) != got:
            v.append(({"subcheck": "parser-reuse", "clause": "later-call-changed-earlier-model", "method": method},
                      "the model returned by %s was modified by a later call in %r" % (method, [REUSE_OPS[j] for j in seq])))
    nt = tuple(seq) if len(seq) > 1 and obs[0][0] != "ok" or len(seq) > 1 and any(o[0] != "ok" for o in obs[1:]) else None
    return {"v": v, "nt": ("reuse",) + tuple(seq) if nt else None, "dg": obs, "n": len(seq),
            "out": ("reuse",) + tuple((REUSE_OPS[k][0], o[1]) for k, o in zip(seq[-2:], obs[-2:])),
            "st": {"transitions": len(seq), "traces": 1}}


def _brief(out):
    if out[0] != "ok":
        return out
    return ("ok", digest(out[1]), _types(out[1]))


def _types(x):
    if isinstance(x, dict):
        if x.get("kind") == "step":
            return (x["keyword"], x["type"])
        return [_types(v) for v in x.values() if isinstance(v, (dict, list))]
    if isinstance(x, list):
        return [_types(v) for v in x]
    return None


# ================================================================ entry points through Parser SUBCLASSES
def subclass_case(case):
    """(kind, entry, a): the texts (), (a,), (a, b) for every plain line kind b, parsed by calling the entry point
    method on an object of a Parser subclass; same invariant, same outcome as the module-level function, and the
    constructor of the object runs exactly once"""
    kind, entry, a = case[0], case[1], case[2]
    hists = [case[3]] if len(case) > 3 else [(), (a,)] + [(a, b) for b in range(ps.PLAIN_NK)]
    res = []
    viol = {}
    obs = []
    for h in hists:
        text = ps.text_of(h)
        base, _, _, _, _ = ps.run_text(entry, text, len(h))
        out, inits, _ = ps.run_subclass(kind, entry, text)
        obs.append((out, inits))
        where = "history [%s] through a Parser subclass (%s)" % (ps.names_of(h), kind)
        found = []
        if out[0] == "EXC":
            found.append(({"subcheck": "subclass", "clause": "internal-exception", "subclass": kind, "entry": "parse_" + entry,
                           "exc": out[1], "site": out[2]},
                          "%s raised %s (in %s) instead of returning a model or raising ParserError; %s"
                          % (ps.METHOD_OF_ENTRY[entry], out[1], out[2], where)))
        else:
            found += [(dict(d, subclass=kind), m) for d, m in ps.invariant(entry, text, out, 0, where)]
            if out[:2] != base[:2] and base[0] != "EXC":
                found.append(({"subcheck": "subclass", "clause": "differs-from-base-class", "subclass": kind, "entry": "parse_" + entry},
                              "the module-level function gives %r, the subclass object %r; %s" % (base, out, where)))
        if inits is not None and inits != 1:
            found.append(({"subcheck": "subclass", "clause": "constructor-called-again", "subclass": kind, "entry": "parse_" + entry},
                          "__init__ of the object ran %d times; %s" % (inits, where)))
        for d, msg in found:
            key = tuple(sorted(d.items()))
            if key not in viol:
                viol[key] = [d, msg, h, 0]
            viol[key][3] += 1
    res.append({"out": ("subclass", kind, entry), "n": len(hists), "dg": digest(obs), "nt": ("subclass",) + tuple(case[:3]),
                "case": case})
    for key, (d, msg, h, cnt) in sorted(viol.items()):
        res.append({"v": [(d, msg)] * cnt, "n": 0, "case": (kind, entry, a, h)})
    return res


# ================================================================ driver
def run(ctx):
    init_worker()
    maxlen = 3 if ctx.quick else 4
    ctx.bounds = {"line_kinds": NK, "bfs": "to fixpoint (frontier empty) for each of 5 entry points",
                  "no_dedup": "<= 3 lines over all %d kinds" % NK + ("" if ctx.quick else
                                                                    "; exactly 4 lines over the %d plain kinds" % ps.PLAIN_NK),
                  "e3_documents": "every 20th feature shape <= 4 blocks" if ctx.quick else "all feature shapes <= 4 blocks"}
    bad = gr.unsafe_alphabet_report()
    ctx.guard(not bad, "rendered names/descriptions cannot be mistaken for keywords in any language %r" % (bad[:3],))
    # ---- E2
    bfs = {}
    for entry in ps.ENTRIES:
        bfs[entry] = run_bfs(ctx, entry)
    ctx.note("bfs", {e: {"states": len(b["states"]), "transitions": len(b["trans"]), "depth_to_fixpoint": b["depth"]}
                     for e, b in bfs.items()})
    # the same search with the documented environment switch ON (private module copy; the text entry points)
    bfs_on = {}
    for entry in ("feature", "rule", "scenario", "steps"):
        bfs_on[entry] = run_bfs(ctx, entry, "on")
    ctx.note("bfs_strip_colon_switch_on", {e: {"states": len(b["states"]), "transitions": len(b["trans"]),
                                                 "depth_to_fixpoint": b["depth"]} for e, b in bfs_on.items()})
    ctx.bounds["switch_on"] = ("BEHAVE_STRIP_STEPS_WITH_TRAILING_COLON=yes: search to fixpoint over %d kinds (plain + steps "
                               "ending with ':') for parse_feature/rule/scenario/steps" % len(ps.SWITCH_ON_KINDS))
    state_names = set(s[1] for s in bfs["feature"]["states"] if s)
    ctx.guard(state_names >= set(ps.install()["states"]),
              "every parser State that has an action_<state> handler is reached by the feature search (reached: %s)" % sorted(state_names))
    pe_sites = set()
    for b in bfs.values():
        pe_sites |= b["pe_sites"]
    ctx.note("parser_error_sites_reached", sorted(pe_sites))
    ctx.guard(len(pe_sites) >= 6, "at least 6 distinct ParserError raise sites reached (%s)" % sorted(pe_sites))
    # ---- no-dedup enumeration + validation of the abstraction
    for entry in ps.ENTRIES:
        kept = ctx.sweep(enum_case, enum_cases(entry, maxlen), chunk=16 if ctx.quick else 2,
                         name="all sequences <= 3 lines (52 kinds)%s, %s"
                         % ("" if ctx.quick else " + 4 lines (33 kinds)", entry), keep=True)
        fn = {}
        conflicts = []
        enum_classes = set()
        for lst, vk in kept:
            enum_classes.update(vk)
            for key, val in lst:
                if key in fn and fn[key] != val:
                    conflicts.append((key, fn[key], val))
                fn.setdefault(key, val)
        ctx.guard(not conflicts, "abstraction is a transition function for entry %s (conflicts: %r)" % (entry, conflicts[:2]))
        b = bfs[entry]
        extra_states = set(v[0] for v in fn.values() if v[0] is not None) - set(b["states"])
        ctx.guard(not extra_states, "no-dedup enumeration of %s reaches no abstract state the search missed (%r)"
                  % (entry, sorted(extra_states, key=repr)[:2]))
        disagree = [(k, b["trans"][k[1:]], v) for k, v in fn.items() if k[1:] in b["trans"] and b["trans"][k[1:]] != v]
        ctx.guard(not disagree, "search and enumeration agree on every shared transition of %s (%r)" % (entry, disagree[:2]))
        untwin = [(k, fn[k][0], fn[(k[0], k[1], ps.TWIN[k[2]])][0]) for k in fn
                  if k[2] in ps.TWIN and (k[0], k[1], ps.TWIN[k[2]]) in fn
                  and fn[k][1][0] != "EXC" and fn[(k[0], k[1], ps.TWIN[k[2]])][1][0] != "EXC"
                  and fn[k][0] != fn[(k[0], k[1], ps.TWIN[k[2]])][0]]
        ctx.guard(not untwin, "a hostile-text line kind leads to the same abstract state as its plain twin, %s (%r)"
                  % (entry, untwin[:2]))
        hidden = [dict(k) for k in enum_classes - b["vclasses"]]
        ctx.guard(not hidden, "every violation class of the no-dedup enumeration of %s is also found by the search (%r)"
                  % (entry, hidden[:2]))
    # ---- library use: the entry point methods on objects of Parser subclasses
    ctx.bounds["subclasses"] = "3 subclass kinds x 4 entry points x all texts of <= 2 lines over the 33 plain kinds"
    ctx.sweep(subclass_case, ((k, e, a) for k in ps.SUBCLASS_KINDS for e in ("feature", "rule", "scenario", "steps")
                              for a in range(ps.PLAIN_NK)), chunk=8, name="entry points through Parser subclasses")
    # ---- histories of calls on one Parser object
    import itertools
    depth = 2 if ctx.quick else 3
    ctx.bounds["parser_reuse"] = "all sequences of <= %d calls over %d (method, text) operations on one Parser" % (depth, len(REUSE_OPS))
    for n in range(1, depth + 1):
        ctx.sweep(reuse_case, itertools.product(range(len(REUSE_OPS)), repeat=n), chunk=64,
                  name="%d parse call(s) on one Parser object" % n)
    # ---- E3
    kept = ctx.sweep(mutate_doc, e3_sources(ctx.quick), chunk=1, name="single-line mutations of valid documents", keep=True)
    seen = set(tuple(x) for lst in kept for x in lst)
    seen_faults = set(x[0] for x in seen)
    missing_atoms = [(f, a, w) for f in sorted(seen_faults) for a in ps.HOSTILE_ATOMS for w in ("line", "prev")
                     if (f, a, w) not in seen and not (w == "prev" and f in ("table-before-step", "docstring-before-step",
                                                                              "docstring-less-indent"))]
    ctx.guard(not missing_atoms, "every catalogued fault kind is also injected with every hostile atom, in the faulty line and in the line before it (missing: %r)" % (missing_atoms[:3],))
    want = set(FAULT_LINES) | {"row-one-cell-too-many", "row-one-cell-too-few", "table-before-step", "docstring-before-step",
                               "docstring-less-indent"}
    ctx.guard(seen_faults >= want, "every catalogued fault kind is injected at least once (missing: %s)"
              % sorted(want - seen_faults))
    ctx.note("fault_kinds_injected", sorted(seen_faults))
    ctx.guard(len(ctx.nt) > 300, "at least 300 distinct non-trivial transitions/mutations")
