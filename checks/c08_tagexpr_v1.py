# -*- coding: utf-8 -*-
"""C08 - v1 tag expressions keep their meaning; dialect auto-detection never misreads.

Engine E4.  Three families of inputs, each with the COMPLETE truth table over
all 16 subsets of a 4-tag universe, against an independent evaluator:

* CNF formulas in old-style syntax (groups AND-ed, alternatives OR-ed, '-'/'~'
  negation, optional '@', optional ':N' limit suffix) given as argument list /
  tuple / one space separated string, under V1 and AUTO_DETECT (protocol passed
  explicitly and selected through TagExpressionProtocol.use());
* every v2 rendering of C07's expression ASTs under AUTO_DETECT;
* every such rendering with exactly one operand given a '-'/'~' prefix: text
  with a new-style operator must be rejected with TagExpressionError, text
  without one is pure old-style and must mean what old-style says;
* the real command-line route: Configuration(["--tags=..", "--tags=.."]).
"""
import itertools
from checks import c07_tagexpr_v2 as c07

PROPERTY = "C08"
LEVEL = "exploration"
RULE = ("(1) Old-style CNF formulas: literal = tag x {positive, '-', '~'} x {bare, '@'} x {no limit, ':N'}; quick: "
        "all formulas of <= 2 literals (1x1, 1x2, 2x1) with every per-literal decoration over tags {a,b,c,candor}, "
        "plus all ordered formulas of 1-2 groups x 1-2 alternatives over signed tags {a,b,c,candor} under 27 "
        "formula-wide decoration styles (negation char -/~/alternating x @ none/all/alternating x limit "
        "none/all/alternating); thorough adds every per-literal decoration for the shapes 3, 1x1x1, 2x1, 1x2 (tags {a,b,c,candor}) and 2x2 "
        "(tags {a,b,c}), and all "
        "formulas up to 3 groups x 3 alternatives over signed tags {a,b,c} (groups and alternatives in canonical "
        "non-decreasing order and in reversed order) under 9 styles. Each formula is presented as list, tuple (small), "
        "space-joined string and string with doubled/leading/trailing blanks, parsed under V1 and AUTO_DETECT, and evaluated on all 16 subsets of {a,b,c,candor}; "
        "oracle = AND over groups of OR over (tag in set) xor negated. "
        "(1b) Empty alternatives: OR-groups with an empty alternative in first / middle / last position (trailing, "
        "leading, doubled comma: 'l,' ',l' 'l,,' ',l,' ',,l' 'l,,m' ',l,m' 'l,m,') with every decoration of the other "
        "alternatives, alone and AND-ed with a second group in either order (whose one-string form is the "
        "blank-after-comma text 'l, m'), same presentations and protocols; oracle: an empty alternative contributes "
        "nothing to its OR (the group means its non-empty alternatives). "
        "(2) Every rendering (8 per AST) of all v2 ASTs with <= 3 operand occurrences (C07's quick set; thorough: full "
        "operand alphabet) under AUTO_DETECT on all 16 subsets of {a,b,a.b,ab} against C07's independent evaluator. "
        "(3) Each of those renderings with one operand occurrence prefixed by '-' or '~': TagExpressionError required "
        "when the text contains and/or/not or parentheses, old-style meaning required when it contains neither, "
        "either of the two accepted when the only new-style feature is a wildcard. "
        "(4) Configuration(['--tags=G1','--tags=G2']) with tag_expression_protocol v1/auto_detect for all ordered "
        "formulas <= 2x2 over signed {a,b,c}. "
        "(7) Protocol histories in one process state: every sequence of 1-2 operations (and of 3 operations; quick: "
        "string texts only) over {TagExpressionProtocol.use(V1|V2|AUTO_DETECT|DEFAULT), make_tag_expression(text, "
        "protocol=None|V1|V2|AUTO_DETECT|DEFAULT)} with text in {pure new-style, pure old-style, neutral single tag, "
        "mixed} as string and as list: every make gives the outcome (truth table or exception class) of its effective "
        "protocol applied on its own (explicit one if given, DEFAULT = AUTO_DETECT, else the last use(), initially "
        "AUTO_DETECT), and current() is what the last use() selected. "
        "(6) Container kind: every sequence of 0-2 (thorough: 0-3; quick: 3 parts over 11 words) parts over 20 words "
        "(tags, prefixed tags, limits incl. inconsistent ones, wildcard, bare operators and parentheses, malformed "
        "fragments, the empty part) under V1, V2 and AUTO_DETECT given as list and as tuple (old-style: also as one "
        "string): same truth table or same exception class whatever the container; mixed parts are rejected with "
        "TagExpressionError from every container. In (1)-(3) every list-form argument is also given as a tuple of the "
        "same parts (1, 2, 3 parts), on the accepted and on the rejection paths. "
        "(5) Read-operation sequences on ONE parsed object: every sequence of <= 2 (quick) / <= 3 (thorough) operations "
        "over {check (all 16 rows), str(), to_string(), format/%s, repr(), len(), read of .ands/.limits} for v1 objects "
        "(all ordered formulas <= 2x2 over signed {a,b,c,candor} under V1; under AUTO_DETECT those with <= 2 literals in "
        "quick, all in thorough) and {check, evaluate, call, str(), to_string(), format, repr()} for v2 objects (all "
        "ASTs <= 2 operands under V2; under AUTO_DETECT 1 operand in quick, all in thorough); every check in a sequence "
        "must give the reference truth table, every other read what it gives on a fresh object. "
        "A case is non-trivial when its reference truth table is not constant and it is not a single undecorated "
        "positive tag; distinct = distinct (signed CNF structure, decoration class) resp. distinct AST.")
ASSUMPTIONS = [
    "tags of the CNF alphabet are a, b, c and 'candor' (a tag containing 'and' and 'or' as substrings); other tag "
    "spellings (dots, dashes, '=') are covered only through the v2 renderings",
    "limit suffixes are consistent per tag (a:3 b:1 c:2 candor:10); inconsistent limits raise by documentation and "
    "are excluded; that limits are *enforced* during a run is not claimed (the statement only speaks of meaning)",
    "the 3x3 tier enumerates groups and alternatives in canonical and in reversed order, not in every order",
    "whitespace inside one ARGUMENT of the list form ('a, b' as one list element) is not covered; in the one-string "
    "form whitespace always separates arguments, so 'a, b' is the two arguments 'a,' and 'b'",
    "an empty alternative (nothing between/before/after commas) names no tag and never matches - behave accepts such "
    "texts without error on the unchanged tree; groups consisting ONLY of empty alternatives (',') and empty arguments "
    "('') are not enumerated (their meaning - false group or ignored group - is not stated)",
]

# ---------------------------------------------------------------- universe / reference for CNF
U4 = ("a", "b", "c", "candor")
SUB4 = [tuple(t for i, t in enumerate(U4) if m >> i & 1) for m in range(16)]
SUB4_LISTS = [list(s) for s in SUB4]
FULL16 = 0xFFFF
TAGMASK = {t: sum(1 << m for m, s in enumerate(SUB4) if t in s) for t in U4}
TAGMASK[""] = 0                 # an EMPTY alternative ("a," / ",a" / "a,,b") names no tag: it contributes nothing to its OR
EMPTY = ("", "", 0, 0)          # literal tuple of an empty alternative (renders as the empty string)
LIMIT = {"a": 3, "b": 1, "c": 2, "candor": 10}


def ref_cnf_mask(formula):
    """AND over groups of OR over literals; literal = (tag, neg, at, limit)"""
    res = FULL16
    for group in formula:
        g = 0
        for lit in group:
            m = TAGMASK[lit[0]]
            g |= (FULL16 ^ m) if lit[1] else m
        res &= g
    return res


def render_literal(lit):
    tag, neg, at, limit = lit
    return "%s%s%s%s" % (neg, "@" if at else "", tag, (":%d" % limit) if limit else "")


def render_groups(formula):
    return [",".join(render_literal(l) for l in g) for g in formula]


# ---------------------------------------------------------------- enumeration of CNF formulas
def literal_forms(tags):
    """every decoration of every tag, simplest first"""
    forms = []
    for t in tags:
        for neg in ("", "-", "~"):
            for at in (0, 1):
                for lim in (0, 1):
                    forms.append((bool(neg) + at + lim, t, neg, at, LIMIT[t] if lim else 0))
    forms.sort(key=lambda f: (f[0], tags.index(f[1]), f[2], f[3], f[4]))
    return [f[1:] for f in forms]


def full_decoration(shape, tags):
    """shape = tuple of group sizes; all per-literal decorations"""
    forms = literal_forms(tags)
    n = sum(shape)
    for lits in itertools.product(forms, repeat=n):
        out, i = [], 0
        for k in shape:
            out.append(tuple(lits[i:i + k]))
            i += k
        yield tuple(out)


def signed(tags):
    return [(t, False) for t in tags] + [(t, True) for t in tags]


def ordered_structures(tags, max_groups, max_alts):
    lits = signed(tags)
    groups = [g for k in range(1, max_alts + 1) for g in itertools.product(lits, repeat=k)]
    for n in range(1, max_groups + 1):
        for f in itertools.product(groups, repeat=n):
            yield f


def canonical_structures_beyond_2x2(tags):
    """3x3 bound: non-decreasing alternatives / groups; only formulas outside the 2x2 bound"""
    lits = signed(tags)
    groups = [g for k in range(1, 4) for g in itertools.combinations_with_replacement(lits, k)]
    for n in range(1, 4):
        for f in itertools.combinations_with_replacement(groups, n):
            if n <= 2 and all(len(g) <= 2 for g in f):
                continue
            yield f
            rev = tuple(tuple(reversed(g)) for g in reversed(f))
            if rev != f:
                yield rev


def empty_alternative_formulas(quick):
    """OR-groups with empty alternatives at first / middle / last position (trailing, leading, doubled comma), every
    decoration of the other alternatives, alone and AND-ed with a second group (the string form of the latter is the
    blank-after-comma text "a, b").  Groups made only of empty alternatives are not enumerated."""
    forms = literal_forms(U4)
    E = EMPTY
    for l in forms:
        for g in ((l, E), (E, l), (l, E, E), (E, l, E), (E, E, l)):
            yield (g,)
    for l in forms:
        for l2 in forms:
            for g in ((l, E), (E, l)):
                yield (g, (l2,))
                yield ((l2,), g)
    small = literal_forms(("a", "b", "candor")) if quick else forms
    for l in small:
        for l2 in small:
            for g in ((l, E, l2), (E, l, l2), (l, l2, E)):
                yield (g,)
    if not quick:
        f3 = literal_forms(("a", "b", "c"))
        for l in f3:
            for l2 in f3:
                for l3 in f3:
                    for g in ((l, E, l2), (E, l, l2), (l, l2, E)):
                        yield (g, (l3,))
                        yield ((l3,), g)
                for g in ((l, E), (E, l)):
                    for g2 in ((l2, E), (E, l2)):
                        yield (g, g2)


STYLES27 = [(n, a, l) for n in (0, 1, 2) for a in (0, 1, 2) for l in (0, 1, 2)]
STYLES9 = [(n, a, l) for n in (0, 1, 2) for (a, l) in ((0, 0), (1, 1), (2, 2))]


def decorate(structure, style):
    negmode, atmode, limmode = style
    out, i, k = [], 0, 0
    for g in structure:
        gg = []
        for tag, negated in g:
            neg = ""
            if negated:
                neg = ("-", "~", "-~"[k % 2])[negmode]
                k += 1
            at = (0, 1, i % 2)[atmode]
            lim = (0, 1, 1 - i % 2)[limmode]
            gg.append((tag, neg, at, LIMIT[tag] if lim else 0))
            i += 1
        out.append(tuple(gg))
    return tuple(out)


def styled(structures, styles):
    for s in structures:
        seen = set()
        for st in styles:
            f = decorate(s, st)
            if f not in seen:
                seen.add(f)
                yield f


# ---------------------------------------------------------------- worker side
def init_worker():
    global make_tag_expression, P, TagExpressionError
    from behave.tag_expression import make_tag_expression
    from behave.tag_expression.builder import TagExpressionProtocol as P
    from behave.tag_expression.parser import TagExpressionError


def reset_protocol():
    """TagExpressionProtocol._current is process-wide: drop it"""
    P.use(P.DEFAULT)        # public API only: the state of a fresh process (current() == DEFAULT)


def real_mask(expr, rows):
    check = expr.check
    m = 0
    for i, s in enumerate(rows):
        if check(s):
            m |= 1 << i
    return m


def first_diff(got, want, rows):
    d = got ^ want
    i = (d & -d).bit_length() - 1
    return rows[i], bool(got >> i & 1), bool(want >> i & 1)


def has_empty(formula):
    return any(l[0] == "" for g in formula for l in g)


def cnf_class(formula):
    lits = [l for g in formula for l in g]
    if has_empty(formula):
        return {"shape": "group-with-empty-alternative", "negation": "any", "limit": "any"}
    negs = sorted(set(l[1] for l in lits if l[1]))
    shape = "lone-literal" if len(lits) == 1 else ("one-group" if len(formula) == 1 else
                                                   ("one-alternative-groups" if all(len(g) == 1 for g in formula)
                                                    else "groups-of-alternatives"))
    return {"shape": shape,
            "negation": "none" if not negs else ("mixed" if len(negs) > 1 else negs[0]),
            "limit": "yes" if any(l[3] for l in lits) else "no"}


def deco_class(formula):
    lits = [l for g in formula for l in g]
    def some(xs):
        xs = list(xs)
        return "all" if all(xs) else ("some" if any(xs) else "none")
    return ("".join(sorted(set(l[1] for l in lits if l[1]))), some(l[2] for l in lits), some(l[3] for l in lits))


def check_cnf(formula):
    """one old-style CNF formula -> presentations x protocol routes, complete truth table each"""
    reset_protocol()
    want = ref_cnf_mask(formula)
    groups = render_groups(formula)
    nlits = sum(len(g) for g in formula)
    pres = [("list", list(groups)), ("string", " ".join(groups)), ("string-wide", "  " + "  ".join(groups) + " ")]
    if nlits <= 3 or len(formula) >= 3:
        pres.append(("tuple", tuple(groups)))       # tuples of 1, 2 and 3 parts
    routes = [("V1", P.V1, False), ("AUTO_DETECT", P.AUTO_DETECT, False)]
    if nlits <= 2:
        routes += [("V1", P.V1, True), ("AUTO_DETECT", P.AUTO_DETECT, True)]
    v, obs, n = [], [], 0
    with_empty = has_empty(formula)
    v1_outcome = {}
    for pname, arg in pres:
        for rname, proto, via_use in routes:
            n += 1
            given = list(arg) if isinstance(arg, list) else arg
            try:
                if via_use:
                    P.use(proto)
                    e = make_tag_expression(given)
                else:
                    e = make_tag_expression(given, proto)
                got = real_mask(e, SUB4_LISTS)
            except Exception as ex:
                if rname == "V1":
                    v1_outcome[pname] = type(ex).__name__
                d = {"subcheck": "cnf", "clause": "raises", "protocol": rname, "exc": type(ex).__name__}
                if with_empty and rname != "V1" and v1_outcome.get(pname) == type(ex).__name__:
                    d["protocol"] = "V1"        # auto-detection only dispatched to the old-style parser: same defect
                d.update(cnf_class(formula))
                v.append((d, "old-style expression %r under %s raised %r" % (arg, rname, ex)))
                obs.append((pname, rname, via_use, "EXC", type(ex).__name__))
                continue
            finally:
                if via_use:
                    reset_protocol()
            obs.append((pname, rname, via_use, got))
            if rname == "V1":
                v1_outcome[pname] = got
            cls = cnf_class(formula)
            if (got != want and rname == "AUTO_DETECT" and cls["shape"] == "lone-literal"
                    and cls["negation"] == "none" and cls["limit"] == "yes" and got == 0):
                # "a:3" alone is BOTH a pure old-style expression (tag a, limit 3) and a pure new-style literal (the
                # tag named "a:3", absent from the universe -> constant false): the statement gives both dialects a
                # claim on it, so either reading is accepted (DESIGN section 9, amendment on 8.13).
                continue
            if got != want:
                tags, g, w = first_diff(got, want, SUB4)
                d = {"subcheck": "cnf", "clause": "truth-table", "protocol": rname}
                if with_empty and rname != "V1" and v1_outcome.get(pname) == got:
                    d["protocol"] = "V1"        # auto-detection only dispatched to the old-style parser: same defect
                d.update(cnf_class(formula))
                v.append((d, "old-style expression %r (%s) under %s%s: tags %r -> behave says %s, "
                             "AND-of-ORs says %s (behave built %s %r)"
                          % (arg, pname, rname, " via TagExpressionProtocol.use()" if via_use else "", tags, g, w,
                             type(e).__module__, str(e))))
    nt = None
    if want not in (0, FULL16) and not (nlits == 1 and deco_class(formula) == ("", "none", "none")):
        nt = ("cnf-empty" if with_empty else "cnf", tuple(tuple((l[0], bool(l[1])) for l in g) for g in formula),
              deco_class(formula))
    return {"v": v, "nt": nt, "out": ("cnf-empty" if with_empty else "cnf", want), "dg": obs, "n": n}


# ---- v2 renderings under AUTO_DETECT, and the same with one prefixed operand ----------------
V2_IDX = (0, 1, 3, 6)                               # a, b, a.b, ab  of C07's universe
V2_TAGS = tuple(c07.UNIVERSE[i] for i in V2_IDX)
V2_ROWS = []
for _m in range(16):
    V2_ROWS.append(sum(1 << V2_IDX[i] for i in range(4) if _m >> i & 1))     # row index into C07's 256 subsets
V2_SUB = [c07.SUBSETS[r] for r in V2_ROWS]
V2_SUB_LISTS = [list(s) for s in V2_SUB]


def ref_v2_mask(ast):
    big = c07.mask(ast)
    return sum(1 << i for i, r in enumerate(V2_ROWS) if big >> r & 1)


def r_full_cb(ast, cb, cnt):
    k = ast[0]
    if k == "lit":
        cnt[0] += 1
        return cb(ast[1], cnt[0])
    if k == "not":
        return "( not %s )" % r_full_cb(ast[1], cb, cnt)
    l = r_full_cb(ast[1], cb, cnt)
    return "( %s %s %s )" % (l, k, r_full_cb(ast[2], cb, cnt))


def r_dbl_cb(ast, cb, cnt):
    k = ast[0]
    if k == "lit":
        cnt[0] += 1
        return "((%s))" % cb(ast[1], cnt[0])
    if k == "not":
        return "not ((%s))" % r_dbl_cb(ast[1], cb, cnt)
    l = r_dbl_cb(ast[1], cb, cnt)
    return "((%s %s %s))" % (l, k, r_dbl_cb(ast[2], cb, cnt))


def renderings_cb(ast, cb):
    """C07's eight renderings, with cb(operand_text, occurrence_index) applied to every operand"""
    base = c07.r_min(ast, cb)
    yield "min", base
    yield "full", r_full_cb(ast, cb, [0])
    yield "dbl", r_dbl_cb(ast, cb, [0])
    yield "at_all", c07.r_min(ast, lambda o, i: cb("@" + o, i))
    yield "at_alt", c07.r_min(ast, lambda o, i: cb(("@" + o) if i % 2 else o, i))
    yield "spaces", "  " + base.replace(" ", "  ") + " "
    cnt = [0]
    yield "list", [c07.r_min(c, cb, cnt) for c in c07.conjuncts(ast)]
    yield "list1", [base]


_IDENT = lambda o, i: o     # noqa: E731


def with_containers(renderings, only=None):
    """the container kind of the argument is a dimension of its own: every list rendering also as a tuple of the
    same parts (the list renderings have 1, 2 or 3 parts); only = restrict the tuple variants to these renderings"""
    for rname, text in renderings:
        yield rname, text
        if isinstance(text, list) and (only is None or rname in only):
            yield rname + "/tuple", tuple(text)


def form_of(text):
    return "list" if isinstance(text, list) else ("tuple" if isinstance(text, tuple) else "text")


def given_of(text):
    return list(text) if isinstance(text, list) else text


def v2_markers(text_or_list):
    """which new-style features a text shows, by plain lexing (independent of behave)"""
    text = " ".join(text_or_list) if isinstance(text_or_list, (list, tuple)) else text_or_list
    words = text.replace("(", " ( ").replace(")", " ) ").split()
    if any(w in ("and", "or", "not") for w in words):
        return "keyword"
    if "(" in words or ")" in words:
        return "parens"
    if any(c in w for w in words for c in "*?["):
        return "wildcard"
    return "none"


def ref_oldstyle_mask(text_or_list):
    """old-style meaning of a text without new-style operators over V2_SUB: each word one group"""
    words = text_or_list if isinstance(text_or_list, (list, tuple)) else text_or_list.split()
    res = FULL16
    for w in words:
        g = 0
        for alt in w.split(","):
            neg = alt[:1] in ("-", "~")
            if neg:
                alt = alt[1:]
            if alt[:1] == "@":
                alt = alt[1:]
            m = sum(1 << i for i, s in enumerate(V2_SUB) if alt in s)
            g |= (FULL16 ^ m) if neg else m
        res &= g
    return res


def check_v2_auto(ast):
    """one v2 AST: (a) all renderings under AUTO_DETECT mean the formula, (b) one prefixed operand -> rejected"""
    reset_protocol()
    want = ref_v2_mask(ast)
    nops = len(c07.operands(ast))
    v, obs, n = [], [], 0
    for rname, text in with_containers(c07.renderings(ast)):
        n += 1
        form = form_of(text)
        try:
            e = make_tag_expression(given_of(text), P.AUTO_DETECT)
            got = real_mask(e, V2_SUB_LISTS)
        except Exception as ex:
            v.append(({"subcheck": "auto.v2", "clause": "raises", "form": form, "markers": v2_markers(text),
                       "exc": type(ex).__name__},
                      "new-style expression %r (rendering %s of %r) under AUTO_DETECT raised %r" % (text, rname, ast, ex)))
            obs.append((rname, "EXC", type(ex).__name__))
            continue
        obs.append((rname, got))
        if got != want:
            tags, g, w = first_diff(got, want, V2_SUB)
            v.append(({"subcheck": "auto.v2", "clause": "truth-table", "form": form, "markers": v2_markers(text)},
                      "new-style expression %r (rendering %s of %r) under AUTO_DETECT: tags %r -> behave says %s, "
                      "formula says %s (behave built %s %r)" % (text, rname, ast, tags, g, w, type(e).__module__, str(e))))
    nt = None
    if want not in (0, FULL16) and not any(want == ref_v2_mask(("lit", o)) for o in c07.operands(ast)):
        nt = ("v2", ast)
    res = [{"v": v, "nt": nt, "out": ("v2", want), "dg": obs, "n": n, "case": ast}]

    # (b) mixed texts
    v2, obs2, n2 = [], [], 0
    outs = set()
    for pos in range(1, nops + 1):
        for prefix in ("-", "~"):
            cb = lambda o, i, pos=pos, prefix=prefix: (prefix + o) if i == pos else o     # noqa: E731
            # (three-operand ASTs: tuple variant of the conjunct list only; one-part tuples come from smaller ASTs)
            for rname, text in with_containers(renderings_cb(ast, cb), ("list",) if nops >= 3 else None):
                n2 += 1
                markers = v2_markers(text)
                form = form_of(text)
                try:
                    e = make_tag_expression(given_of(text), P.AUTO_DETECT)
                    got = real_mask(e, V2_SUB_LISTS)
                    exc = None
                except Exception as ex:
                    exc, got, e = ex, None, None
                obs2.append((pos, prefix, rname, type(exc).__name__ if exc is not None else got))
                rejected = isinstance(exc, TagExpressionError)
                cont = {}
                if form == "tuple" and not (rejected and markers in ("keyword", "parens")):
                    # minimal trigger class (asked only when something may be reported): is the LIST of the same
                    # parts treated correctly?
                    try:
                        make_tag_expression(list(text), P.AUTO_DETECT)
                        list_exc = None
                    except Exception as ex2:
                        list_exc = ex2
                    if type(list_exc) is not type(exc):
                        cont = {"container": "tuple", "parts": "1" if len(text) == 1 else "2+"}
                if markers in ("keyword", "parens"):
                    outs.add("mixed-rejected" if rejected else "mixed-not-rejected")
                    if rejected:
                        continue
                    if exc is not None:
                        d = {"subcheck": "auto.mixed", "clause": "wrong-exception", "markers": markers,
                             "exc": type(exc).__name__}
                        if cont:
                            d.pop("markers")
                            d.update(cont)
                        v2.append((d, "mixed text %r under AUTO_DETECT raised %r, not a TagExpressionError" % (text, exc)))
                    else:
                        d = {"subcheck": "auto.mixed", "clause": "accepted", "markers": markers}
                        d.update(cont)
                        v2.append((d,
                                   "text %r mixes the old negation prefix %r with new-style operators but is accepted "
                                   "under AUTO_DETECT (behave built %s %r)" % (text, prefix, type(e).__module__, str(e))))
                    continue
                # no operator: pure old-style text (or old-style + wildcard character: either reading accepted)
                if markers == "wildcard" and rejected:
                    outs.add("prefixed-wildcard-rejected")
                    continue
                want_old = ref_oldstyle_mask(text)
                if exc is not None:
                    d = {"subcheck": "auto.prefixed", "clause": "raises", "markers": markers, "exc": type(exc).__name__}
                    if cont:
                        d.pop("markers")
                        d.update(cont)
                    v2.append((d, "pure old-style text %r under AUTO_DETECT raised %r" % (text, exc)))
                elif got != want_old:
                    tags, g, w = first_diff(got, want_old, V2_SUB)
                    v2.append(({"subcheck": "auto.prefixed", "clause": "truth-table", "markers": markers, "form": form},
                               "pure old-style text %r under AUTO_DETECT: tags %r -> behave says %s, old-style meaning "
                               "says %s (behave built %s %r)" % (text, tags, g, w, type(e).__module__, str(e))))
                else:
                    outs.add("prefixed-oldstyle-ok")
    res.append({"v": v2, "out": ("mixed", tuple(sorted(outs))), "dg": obs2, "n": n2, "case": ast})
    return res


def check_render_identity(ast):
    """harness self-check: the callback renderer with the identity callback equals C07's renderer"""
    mine = list(renderings_cb(ast, _IDENT))
    theirs = dict(c07.renderings(ast))        # C07 may have renderings of its own that are not mirrored here
    same = all(name in theirs and theirs[name] == text for name, text in mine) and len(mine) >= 8
    return {"out": ("render-identity", same), "dg": same, "n": 0}


# ---- the command-line route -------------------------------------------------------------------
def check_cli(case):
    formula, proto_name = case
    reset_protocol()
    from behave.configuration import Configuration
    want = ref_cnf_mask(formula)
    args = ["--tags=" + g for g in render_groups(formula)]
    v = []
    try:
        cfg = Configuration(args, load_config=False, tag_expression_protocol=getattr(P, proto_name))
        e = cfg.tag_expression
        got = real_mask(e, SUB4_LISTS)
    except (Exception, SystemExit) as ex:
        d = {"subcheck": "cli", "clause": "raises", "protocol": proto_name, "exc": type(ex).__name__}
        d.update(cnf_class(formula))
        v.append((d, "command line %r (protocol %s) raised %r" % (args, proto_name, ex)))
        reset_protocol()
        return {"v": v, "dg": ("EXC", type(ex).__name__), "out": ("cli", "exc")}
    reset_protocol()
    cls = cnf_class(formula)
    if (got != want and proto_name == "AUTO_DETECT" and cls["shape"] == "lone-literal"
            and cls["negation"] == "none" and cls["limit"] == "yes" and got == 0):
        got = want      # ambiguous text claimed by both dialects, see check_cnf
    if got != want:
        tags, g, w = first_diff(got, want, SUB4)
        # attribution: if make_tag_expression on the same argument list is wrong in the same way, this is the
        # defect the "cnf" sub-check reports (one defect = one descriptor); otherwise the command-line glue is at fault
        sub = "cli"
        try:
            if real_mask(make_tag_expression(render_groups(formula), getattr(P, proto_name)), SUB4_LISTS) == got:
                sub = "cnf"
        except Exception:
            pass
        d = {"subcheck": sub, "clause": "truth-table", "protocol": proto_name}
        d.update(cnf_class(formula))
        v.append((d, "command line %r (protocol %s): tags %r -> behave selects %s, AND-of-ORs says %s "
                     "(behave built %s %r)" % (args, proto_name, tags, g, w, type(e).__module__, str(e))))
    nt = ("cli", formula, proto_name) if want not in (0, FULL16) else None
    return {"v": v, "nt": nt, "out": ("cli", want), "dg": got}


# ---- read operations on one expression object ------------------------------------------------------
# A parsed expression is kept (config.tag_expression) and is rendered (logs, summaries, diagnostics) and asked
# many times.  Every sequence of read operations on ONE object: each check must still give the reference truth
# table, every other read must give what it gives on a fresh object (reads are idempotent, meaning never changes).
H_OPS_V1 = ("check", "str", "to_string", "format", "repr", "len", "state")
H_OPS_V2 = ("check", "evaluate", "call", "str", "to_string", "format", "repr")
H_CHECKS = ("check", "evaluate", "call")
H_RENDER = ("str", "to_string", "format")


def h_apply(e, op, rows):
    try:
        if op == "check":
            return real_mask(e, rows)
        if op == "evaluate":
            return sum(1 << i for i, r in enumerate(rows) if e.evaluate(r))
        if op == "call":
            return sum(1 << i for i, r in enumerate(rows) if e(r))
        if op == "str":
            return str(e)
        if op == "to_string":
            return e.to_string()
        if op == "format":
            return ("{0}".format(e), "%s" % (e,), "{0!s}".format(e))
        if op == "repr":
            return repr(e)
        if op == "len":
            return len(e)
        if op == "state":                   # the documented public attributes of a v1 expression, read only
            return repr((e.ands, sorted(e.limits.items())))
    except Exception as ex:
        return ("EXC", type(ex).__name__)
    raise ValueError(op)


def h_opclass(op):
    return "render-text" if op in H_RENDER else ("ask" if op in H_CHECKS else op)


def check_object_history(case):
    """one expression object spec x every sequence of read operations up to the given length"""
    dialect, spec, proto_name, maxlen = case
    reset_protocol()
    proto = getattr(P, proto_name)
    if dialect == "v1":
        arg, rows, sets, want = render_groups(spec), SUB4_LISTS, SUB4, ref_cnf_mask(spec)
    else:
        arg, rows, sets, want = c07.r_min(spec), V2_SUB_LISTS, V2_SUB, ref_v2_mask(spec)

    def build():
        return make_tag_expression(list(arg) if isinstance(arg, list) else arg, proto)
    try:
        probe = build()
    except Exception as ex:
        return {"out": ("hist", "unparsable", type(ex).__name__), "dg": "unparsable", "n": 0}
    is_v1 = hasattr(probe, "ands")
    ops = H_OPS_V1 if is_v1 else H_OPS_V2
    base = dict((op, h_apply(build(), op, rows)) for op in ops)
    if any(base[op] != want for op in ops if op in H_CHECKS):
        # wrong (or ambiguous) already on a fresh object: the business of the other sub-checks
        return {"out": ("hist", "fresh-object-disagrees"), "dg": repr(base), "n": len(ops)}

    def expected(op):
        return want if op in H_CHECKS else base[op]

    def wrong_at(seq):
        """index of the first operation of seq whose result is not the expected one (fresh object), else None"""
        e = build()
        for j, op in enumerate(seq):
            r = h_apply(e, op, rows)
            if r != expected(op):
                return j, r
        return None

    v, obs, n = [], [], 0
    for k in range(1, maxlen + 1):
        for seq in itertools.product(ops, repeat=k):
            n += 1
            bad = wrong_at(seq)
            obs.append((seq, bad))
            if bad is None:
                continue
            j, r = bad
            op = seq[j]
            # minimal trigger: the shortest sub-sequence of the earlier operations after which op is still wrong
            before = seq[:j]
            minimal = before
            found = False
            for m in range(0, len(before)):
                for idx in itertools.combinations(range(len(before)), m):
                    cand = tuple(before[i] for i in idx) + (op,)
                    w = wrong_at(cand)
                    if w is not None and w[0] == len(cand) - 1:
                        minimal, found = cand[:-1], True
                        break
                if found:
                    break
            d = {"subcheck": "object-history", "dialect": "v1" if is_v1 else "v2",
                 "after": ">".join(h_opclass(o) for o in minimal) or "nothing"}
            if isinstance(r, tuple) and r and r[0] == "EXC":
                d["clause"] = "raises"
                d["exc"] = r[1]
            elif op in H_CHECKS:
                d["clause"] = "meaning-changes-after-read"
            else:
                d["clause"] = "read-result-changes-after-read"
            if op in H_CHECKS and not (isinstance(r, tuple)):
                tags, g, w = first_diff(r, want, sets)
                detail = "tags %r -> %s, the formula says %s" % (tags, g, w)
            else:
                detail = "got %r, a fresh object gives %r" % (r, expected(op))
            v.append((d, "%s expression %r (%s, object %s): after %s the operation %s is wrong: %s"
                      % ("old-style" if dialect == "v1" else "new-style", arg, proto_name, type(probe).__name__,
                         list(before), op, detail)))
    nt = ("hist", dialect, spec, proto_name) if want not in (0, FULL16) else None
    return {"v": v, "nt": nt, "out": ("hist", "v1" if is_v1 else "v2", want), "dg": obs, "n": n}


# ---- container kind of the argument ------------------------------------------------------------------
# make_tag_expression / the auto-detection accept a string, a list or a tuple of parts.  The SAME parts must give
# the same result (truth table, or rejection with the same exception class) whatever the container, on the accepted
# paths and on every rejection path (mixed dialects, malformed new-style, malformed old-style); mixed text is
# rejected with TagExpressionError from every container.
CONT_WORDS = ("a", "-a", "~b", "@a", "candor", "a,b", "a:1", "a:2", "a*", "not", "and", "or", "(", ")", "a and",
              "not b", "-a or b", "(a", "b)", "")
CONT_PROTOCOLS = ("V1", "V2", "AUTO_DETECT")


def cont_outcome(arg, proto):
    try:
        e = make_tag_expression(arg, proto)
        return real_mask(e, SUB4_LISTS)
    except Exception as ex:
        return type(ex).__name__


def cont_is_mixed(parts):
    words = " ".join(parts).replace("(", " ( ").replace(")", " ) ").split()
    prefixed = any(w[:1] in ("-", "~") for w in words)
    return prefixed and any(w in ("and", "or", "not", "(", ")") for w in words)


def check_containers(case):
    """one (parts, protocol): list / tuple (/ string where the dialect gives it the same parts)"""
    idxs, proto_name = case
    reset_protocol()
    parts = tuple(CONT_WORDS[i] for i in idxs)
    proto = getattr(P, proto_name)
    outcomes = [("list", cont_outcome(list(parts), proto)), ("tuple", cont_outcome(tuple(parts), proto))]
    if proto_name == "V1" and all(p and " " not in p for p in parts) and parts:
        outcomes.append(("string", cont_outcome(" ".join(parts), proto)))     # old-style: blanks separate the arguments
    v = []
    ref_name, ref = outcomes[0]
    nparts = "0" if not parts else ("1" if len(parts) == 1 else "2+")
    path = "rejected" if isinstance(ref, str) else "accepted"
    for cname, out in outcomes[1:]:
        if out != ref:
            d = {"subcheck": "container", "clause": "outcome-depends-on-container", "protocol": proto_name,
                 "container": cname, "parts": nparts, "path": path}
            if isinstance(out, str):
                d["exc"] = out
            v.append((d, "parts %r under %s: as list -> %s, as %s -> %s"
                      % (list(parts), proto_name, ref if isinstance(ref, str) else "truth table %04x" % ref, cname,
                         out if isinstance(out, str) else "truth table %04x" % out)))
    mixed = proto_name == "AUTO_DETECT" and cont_is_mixed(parts)
    if mixed:
        for cname, out in outcomes:
            if out != "TagExpressionError" and (cname == "list" or out == ref):
                # (a tuple that merely differs from the list is reported above, once)
                d = {"subcheck": "container", "clause": "mixed-not-rejected-with-TagExpressionError",
                     "container": cname, "parts": nparts}
                if isinstance(out, str):
                    d["exc"] = out
                v.append((d, "parts %r (mixing the old negation prefix with new-style operators) as %s under AUTO_DETECT "
                             "-> %s" % (list(parts), cname, out if isinstance(out, str) else "accepted, table %04x" % out)))
    nt = ("cont", case) if len(parts) >= 2 else None
    return {"v": v, "nt": nt, "out": ("cont", proto_name, path, mixed, ref if isinstance(ref, str) else "table"),
            "dg": outcomes, "n": len(outcomes)}


# ---- protocol histories ---------------------------------------------------------------------------------
# Library use: TagExpressionProtocol.use() selects the process-wide default, make_tag_expression(text, protocol=X)
# asks for a dialect explicitly.  In every sequence of such operations each make must behave like its EFFECTIVE
# protocol applied in isolation - the explicit one if given (DEFAULT is AUTO_DETECT), else what the last use()
# selected (AUTO_DETECT in a fresh process) - and current() changes through use() only.
PH_PROTOCOLS = ("V1", "V2", "AUTO_DETECT", "DEFAULT")
PH_TEXTS = (("pure-v2", "a and not b"), ("pure-v1", "a,b -c"), ("neutral", "a"), ("mixed", "-a and b"),
            ("pure-v2", ["a or b", "not c"]), ("pure-v1", ["a,b", "-c"]), ("neutral", ["a"]), ("mixed", ["-a", "b or c"]))
PH_OPS = tuple([("use", pn, None) for pn in PH_PROTOCOLS]
               + [("make", pn, ti) for ti in range(len(PH_TEXTS)) for pn in (None,) + PH_PROTOCOLS])
PH_OPS_SMALL = tuple(i for i, o in enumerate(PH_OPS) if o[0] == "use" or o[2] < 4)       # string texts only
_PH_ISOLATED = {}


def ph_outcome(fn):
    try:
        return real_mask(fn(), SUB4_LISTS)
    except Exception as ex:
        return type(ex).__name__


def ph_isolated(pname, ti):
    """the outcome of one protocol applied on its own (stateless dispatch of the protocol object)"""
    key = (pname, ti)
    if key not in _PH_ISOLATED:
        text = PH_TEXTS[ti][1]
        reset_protocol()
        _PH_ISOLATED[key] = ph_outcome(lambda: getattr(P, pname).parse(given_of(text)))
    return _PH_ISOLATED[key]


def ph_name(member):
    return "AUTO_DETECT" if member is P.AUTO_DETECT else member.name


def ph_play(history):
    """-> list of (op, outcome or None, current() after the op, model's effective protocol, model's current)"""
    reset_protocol()
    cur = "AUTO_DETECT"
    out = []
    try:
        for i in history:
            kind, pn, ti = PH_OPS[i]
            eff = None
            res = None
            if kind == "use":
                P.use(getattr(P, pn))
                cur = "AUTO_DETECT" if pn == "DEFAULT" else pn
            else:
                eff = cur if pn is None else ("AUTO_DETECT" if pn == "DEFAULT" else pn)
                text = PH_TEXTS[ti][1]
                if pn is None:
                    res = ph_outcome(lambda: make_tag_expression(given_of(text)))
                else:
                    res = ph_outcome(lambda: make_tag_expression(given_of(text), protocol=getattr(P, pn)))
            out.append((PH_OPS[i], res, ph_name(P.current()), eff, cur))
    finally:
        reset_protocol()
    return out


def ph_first_fault(trace):
    for j, (op, res, now, eff, cur) in enumerate(trace):
        # (what current() reports after an operation is not judged by itself - the statement speaks of how texts are
        #  read: a selection changed behind the caller's back shows as a LATER make() with the wrong outcome)
        if op[0] == "make" and res != ph_isolated(eff, op[2]):
            return j, "outcome"
    return None


def ph_opclass(op):
    kind, pn, ti = op
    if kind == "use":
        return "use"
    return "make(protocol=%s)" % ("None" if pn is None else "explicit")


def check_protocol_history(history):
    history = tuple(history)
    trace = ph_play(history)
    fault = ph_first_fault(trace)
    v = []
    if fault is not None:
        j, what = fault
        op, res, now, eff, cur = trace[j]
        # minimal trigger: the shortest sub-sequence of the earlier operations that still breaks operation j
        before = history[:j]
        minimal = before
        found = False
        for m in range(0, len(before)):
            for idx in itertools.combinations(range(len(before)), m):
                cand = tuple(before[i] for i in idx) + (history[j],)
                f = ph_first_fault(ph_play(cand))
                if f is not None and f[0] == len(cand) - 1:
                    minimal, found = cand[:-1], True
                    break
            if found:
                break
        d = {"subcheck": "protocol-history", "operation": ph_opclass(op),
             "after": ">".join(ph_opclass(PH_OPS[i]) for i in minimal) or "nothing"}
        if op[0] == "make":
            d["requested"] = "none" if op[1] is None else ("AUTO_DETECT/DEFAULT" if op[1] in ("AUTO_DETECT", "DEFAULT")
                                                          else "V1-or-V2")
        if what == "current":
            d["clause"] = "current-protocol-changed-not-by-use" if op[0] == "make" else "current-is-not-what-use-selected"
            msg = "after %r TagExpressionProtocol.current() is %s, expected %s" % (op, now, cur)
        else:
            d["clause"] = "outcome-is-not-that-of-the-effective-protocol"
            d["text"] = PH_TEXTS[op[2]][0]
            iso = ph_isolated(eff, op[2])
            show = lambda o: o if isinstance(o, str) else "truth table %04x" % o     # noqa: E731
            msg = ("make_tag_expression(%r, protocol=%s) -> %s; the effective protocol %s on its own gives %s"
                   % (PH_TEXTS[op[2]][1], op[1], show(res), eff, show(iso)))
        v.append((d, "operations in one process %r: %s (minimal earlier operations: %r)"
                  % ([PH_OPS[i] for i in history], msg, [PH_OPS[i] for i in minimal])))
    makes = [t for t in trace if t[0][0] == "make"]
    nt = ("phist", history) if len(history) > 1 and makes else None
    last = makes[-1] if makes else None
    return {"v": v, "nt": nt, "out": ("phist", last[3] if last else None, PH_TEXTS[last[0][2]][0] if last else None,
                                      (last[1] if isinstance(last[1], str) else "table") if last else None),
            "dg": [(t[0], t[1], t[2]) for t in trace], "n": len(trace)}


# ---------------------------------------------------------------- driver
def run(ctx):
    init_worker()
    quick = ctx.quick
    ctx.bounds = {
        "cnf_full_decoration_shapes": ["1", "1,1", "2"] if quick else ["1", "1,1", "2", "2,1", "1,2", "3", "1,1,1",
                                                                         "2,2 over {a,b,c}"],
        "cnf_styled": "<=2 groups x <=2 alternatives ordered over signed {a,b,c,candor} x 27 styles" + (
            "" if quick else "; <=3 x <=3 canonical+reversed over signed {a,b,c} x 9 styles"),
        "v2_operand_occurrences": 3,
        "v2_alphabet_3_operands": list(c07.OPS_QUICK if quick else c07.OPS_3),
        "truth_table_rows": 16,
        "read_operation_sequence_length": 2 if quick else 3,
        "protocol_history_operations": len(PH_OPS), "protocol_history_length": "2 (all), 3 (%s)" % (
            "string texts" if quick else "all"),
        "read_operations": {"v1": list(H_OPS_V1), "v2": list(H_OPS_V2)},
    }
    # (1) CNF, old-style
    shapes = [(1,), (2,), (1, 1)]
    if not quick:
        shapes += [(3,), (1, 1, 1), (2, 1), (1, 2), (2, 2)]
    for sh in shapes:
        ctx.sweep(check_cnf, full_decoration(sh, U4 if sum(sh) <= 3 else U4[:3]), chunk=512,
                  name="cnf every decoration, groups %s" % "x".join(map(str, sh)))
    ctx.sweep(check_cnf, styled(ordered_structures(U4, 2, 2), STYLES27), chunk=512, name="cnf <=2x2 ordered x styles")
    if not quick:
        ctx.sweep(check_cnf, styled(canonical_structures_beyond_2x2(("a", "b", "c")), STYLES9), chunk=512,
                  name="cnf <=3x3 beyond 2x2 x styles")
    ctx.sweep(check_cnf, empty_alternative_formulas(quick), chunk=256, name="cnf with empty alternatives")
    # (4) command line
    cli = [(decorate(s, STYLES27[(i * 7 + 5) % 27]), p)
           for i, s in enumerate(ordered_structures(("a", "b", "c"), 2, 2)) for p in ("V1", "AUTO_DETECT")]
    ctx.sweep(check_cli, cli, chunk=32, name="Configuration --tags route")
    # (2)+(3) v2 renderings and mixed texts under auto-detection
    plan = [(1, c07.OPS_FULL), (2, c07.OPS_FULL), (3, c07.OPS_QUICK if quick else c07.OPS_3)]
    ctx.sweep(check_render_identity, list(c07.asts(1, c07.OPS_FULL)) + list(c07.asts(2, c07.OPS_QUICK)), chunk=256,
              name="renderer self-check", replay=False)
    for n, leaves in plan:
        ctx.sweep(check_v2_auto, c07.asts(n, leaves), chunk=128, name="v2 + mixed under auto-detect, %d operands" % n)

    # (7) protocol histories
    allops = range(len(PH_OPS))

    def ph_cases():
        for k in (1, 2):
            for h in itertools.product(allops, repeat=k):
                yield h
        for h in itertools.product(allops if not quick else PH_OPS_SMALL, repeat=3):
            yield h
    ctx.sweep(check_protocol_history, ph_cases(), chunk=256, name="protocol histories (use / make with explicit protocol)")
    # (6) container kind of the argument, accepted and rejected paths
    cl = 2 if quick else 3
    ctx.sweep(check_containers, ((ix, p) for k in range(0, cl + 1)
                                 for ix in itertools.product(range(len(CONT_WORDS)), repeat=k) for p in CONT_PROTOCOLS),
              chunk=128, name="container kind of the argument")
    if quick:       # three parts: a smaller word list
        w3 = [CONT_WORDS.index(w) for w in ("a", "-a", "~b", "not", "or", "(", ")", "not b", "a:1", "a:2", "")]
        ctx.sweep(check_containers, ((ix, p) for ix in itertools.product(w3, repeat=3) for p in CONT_PROTOCOLS),
                  chunk=128, name="container kind of the argument, 3 parts")
    # (5) sequences of read operations on one object
    hlen = 2 if quick else 3
    hist = [("v1", decorate(s, STYLES27[(i * 7 + 5) % 27]), p, hlen)
            for i, s in enumerate(ordered_structures(U4, 2, 2)) for p in ("V1", "AUTO_DETECT")
            if p == "V1" or not quick or sum(len(g) for g in s) <= 2]     # auto-detection builds the same classes
    ctx.sweep(check_object_history, hist, chunk=64, name="read-operation sequences on one v1 object")
    hist2 = [("v2", a, p, hlen) for n_ in (1, 2) for a in c07.asts(n_, c07.OPS_FULL) for p in ("V2", "AUTO_DETECT")
             if p == "V2" or not quick or n_ == 1]
    ctx.sweep(check_object_history, hist2, chunk=64, name="read-operation sequences on one v2 object")

    outs = ctx.outcomes
    ctx.guard(sum(1 for k in ctx.nt if k[0] == "hist" and k[1] == "v1") > 3000,
              "at least 3000 non-trivial old-style objects put through read-operation sequences")
    ctx.guard(sum(1 for k in ctx.nt if k[0] == "hist" and k[1] == "v2") > 1000,
              "at least 1000 non-trivial new-style objects put through read-operation sequences")
    ctx.guard(outs.get(("render-identity", True), 0) > 0 and outs.get(("render-identity", False), 0) == 0,
              "prefixing renderer with identity callback reproduces C07's renderings")
    mixed = [k for k in outs if k[0] == "mixed"]
    ctx.guard(any("mixed-rejected" in k[1] for k in mixed), "some mixed text was rejected")
    ctx.guard(any("prefixed-oldstyle-ok" in k[1] for k in mixed), "some prefixed operator-free text read as old-style")
    ctx.guard(sum(1 for k in ctx.nt if k[0] == "cnf") > 2000, "at least 2000 distinct non-trivial CNF (structure, decoration)")
    ctx.guard(sum(1 for k in ctx.nt if k[0] == "v2") > 1000, "at least 1000 distinct non-trivial v2 ASTs")
    ctx.guard(sum(1 for k in outs if k[0] == "cnf") > 50, "at least 50 distinct CNF truth tables")
    ph = [k for k in outs if k[0] == "phist"]
    ctx.guard(all(any(k[1] == e and k[2] == t for k in ph) for e in ("V1", "V2", "AUTO_DETECT")
                  for t in ("pure-v2", "pure-v1", "neutral", "mixed")),
              "protocol histories: every effective protocol met every text kind")
    ctx.guard(any(k[1] == "AUTO_DETECT" and k[2] == "mixed" and k[3] == "TagExpressionError" for k in ph)
              and any(k[1] == "V1" and k[2] == "mixed" and k[3] == "table" for k in ph)
              and any(k[1] == "V2" and k[2] == "pure-v1" and k[3] == "TagExpressionError" for k in ph),
              "protocol histories: the three protocols are told apart by the texts (mixed rejected only by auto-detect, "
              "old-style text rejected by V2)")
    ctx.guard(sum(1 for k in ctx.nt if k[0] == "phist") > 10000, "at least 10000 protocol histories with a make after another operation")
    co = [k for k in outs if k[0] == "cont"]
    ctx.guard(any(k[1] == "AUTO_DETECT" and k[3] and k[4] == "TagExpressionError" for k in co),
              "container sweep: mixed parts rejected with TagExpressionError were seen")
    ctx.guard(any(k[1] == "V2" and k[2] == "rejected" for k in co) and any(k[1] == "V1" and k[2] == "rejected" for k in co)
              and all(any(k[1] == p and k[2] == "accepted" for k in co) for p in CONT_PROTOCOLS),
              "container sweep: accepted paths under every protocol, rejected paths under V1 (inconsistent limits) and V2")
    ctx.guard(sum(1 for k in ctx.nt if k[0] == "cont") > 1000, "at least 1000 multi-part arguments in the container sweep")
    ctx.guard(sum(1 for k in ctx.nt if k[0] == "cnf-empty") > 300, "at least 300 distinct non-trivial CNF with an empty alternative")
    ctx.guard(sum(1 for k in outs if k[0] == "cnf-empty") > 10, "at least 10 distinct truth tables among CNF with empty alternatives")
