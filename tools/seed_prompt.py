#!/venv/bin/python
"""prints the prompt for a fresh 'breaker' sub-agent: property text + its own scratch worktree, nothing from /verif"""
import json, sys
pid, wt = sys.argv[1], sys.argv[2]
extra = sys.argv[3] if len(sys.argv) > 3 else ""
p = [json.loads(l) for l in open("/verif/properties.jsonl") if json.loads(l)["id"] == pid][0]
print("""You are testing how robust a verification effort is. You work ONLY inside the git worktree %(wt)s (a checkout of the Python BDD framework "behave"; run things with /venv/bin/python and always with PYTHONPATH=%(wt)s so that your worktree's code is imported, e.g. `cd %(wt)s && PYTHONPATH=%(wt)s /venv/bin/python -m pytest tests -q -x -p no:cacheprovider`). Do NOT read or touch /verif or /repo, and do not look for any verification tooling: your change must be independent of it.

Here is a semantic property of behave that is supposed to hold:

  id: %(id)s - %(title)s
  statement: %(statement)s
  quantifier: %(quant)s
  anchored in: %(files)s
  mechanisms: %(mech)s

Task: make ONE small, realistic change to the library code under %(wt)s/behave/ (the kind of slip a maintainer could plausibly make in a refactoring: shared mutable state, a cursor/offset, a dropped disjunct or branch, a wrong attribute, an ordering, a cache not invalidated, two sites that each look fine alone ...) that BREAKS this property while (a) everything still imports and (b) the existing test suite still passes exactly as before your change (run `cd %(wt)s && PYTHONPATH=%(wt)s /venv/bin/python -m pytest -q -p no:cacheprovider --timeout=900 2>&1 | tail -5` before and after; the 13 failures in tests/unit/test_configuration.py::TestConfigFile::test_tag_expression_protocol* exist before your change and do not count). The breakage must need something SPECIFIC to manifest - a particular tree shape, a multi-step sequence of operations, a fault at a particular point, an unusual but legal input, a particular combination of switches - not something every ordinary run would expose at once. %(extra)s

Deliver, all inside %(wt)s:
 1. the change itself, left UNCOMMITTED in the worktree (I will take `git diff`); touch only files under behave/;
 2. a demonstration file %(wt)s/demo_%(id)s.py: a small self-contained program (plain behave API, no pytest needed) that exits 0 on the original code and exits 1 (printing what went wrong) with your change. Verify both: run it with your change, then `git diff > p.patch; git apply -R p.patch ... git apply p.patch (never git stash: shared between worktrees)`, run it again, then re-apply the patch.
 3. a file %(wt)s/NOTE_%(id)s.md with 5-10 lines: what you changed, why it breaks the property, what exactly is needed for it to manifest, and the pytest summary lines before/after.
Final message: the one-paragraph summary from NOTE plus the two demo outputs.""" % {
    "wt": wt, "id": p["id"], "title": p["title"], "statement": p["statement"], "quant": p["quantifier"]["text"],
    "files": ", ".join(p["anchors"]["files"]),
    "mech": "; ".join("%s (%s)" % (m["name"], m["where"]) for m in p["anchors"].get("mechanism", [])),
    "extra": extra})
