#!/venv/bin/python
"""Regression over all kept seeded changes: apply each patch to a scratch clone of /repo HEAD and run the
property's quick check against it; every one must be reported (exit 1).  usage: seed_regress.py [name-filter] [--nproc N]"""
import glob, json, os, subprocess, sys, re
flt = sys.argv[1] if len(sys.argv) > 1 and not sys.argv[1].startswith("--") else ""
nproc = "8"
if "--nproc" in sys.argv:
    nproc = sys.argv[sys.argv.index("--nproc") + 1]
wt = "/dev/shm/wt-regress-%d" % os.getpid()
def sh(c):
    return subprocess.run(c, shell=True, stdout=subprocess.PIPE, stderr=subprocess.STDOUT, text=True)
# an independent clone, not a worktree: worktrees share stash/prune state with every other worktree of /repo
sh("git clone -q --no-hardlinks /repo %s" % wt)
bad = []
try:
    for p in sorted(glob.glob("/verif/seeded/*/meta.json")):
        name = os.path.basename(os.path.dirname(p))
        if flt and flt not in name:
            continue
        d = json.load(open(p))
        if d.get("neutralised_by"):
            print("%-8s skipped: no longer property-breaking since fix %s" % (name, d["neutralised_by"]))
            continue
        sh("git -C %s reset -q --hard HEAD && git -C %s clean -fdq" % (wt, wt))   # apply --3way stages its result: checkout alone would keep it
        r = sh("git -C %s apply --3way %s/patch.diff" % (wt, os.path.dirname(p)))
        if r.returncode:
            # a later fix: commit touched the same lines; the kept patch is relative to meta["base_commit"]
            print("%-8s skipped: patch no longer applies to HEAD (base %s)" % (name, d.get("base_commit")))
            continue
        # the checks recorded as reporting this change (the property's own check first; a change aimed at one property
        # is sometimes owned by a sibling check - see meta["caught_by"])
        checks = [c for c in [d["property"]] + list(d.get("caught_by") or []) if c in (d.get("caught_by") or [d["property"]])]
        checks = list(dict.fromkeys(checks)) or [d["property"]]
        ok = False
        for c in checks:
            r = sh("cd /verif && VERIF_REPO=%s ./check %s --tier quick --nproc %s" % (wt, c, nproc))
            nviol = r.stdout.count("VIOLATION property=")
            print("%-8s %s exit=%d violation-classes=%d" % (name, c, r.returncode, nviol), flush=True)
            if r.returncode == 1:
                ok = True
                break
        if not ok:
            bad.append(name)
finally:
    sh("rm -rf %s" % wt)
print("NOT CAUGHT: %s" % bad if bad else "all seeded changes are reported")
sys.exit(1 if bad else 0)
