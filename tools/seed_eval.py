#!/venv/bin/python
"""Evaluate a seeded property-breaking change produced in a scratch worktree and, if it qualifies, keep it.

usage: seed_eval.py <property-id> <worktree> <name> [--checks C01,C03,...] [--tier quick]

Steps: (1) patch = git diff of the worktree restricted to behave/; (2) the pinned baseline tests must still pass on
the worktree; (3) the demonstration demo_<id>.py must exit non-zero with the change and zero without it; (4) the
property's check (and optionally others) is run with VERIF_REPO=<worktree>; (5) everything is stored under
/verif/seeded/<name>/ (patch.diff, demo, NOTE, meta.json). Nothing is ever applied to /repo.
"""
import json, os, shutil, subprocess, sys, time

def sh(cmd, **kw):
    return subprocess.run(cmd, shell=True, stdout=subprocess.PIPE, stderr=subprocess.STDOUT, text=True, **kw)

def main():
    pid, wt, name = sys.argv[1:4]
    checks = [pid]
    tier = "quick"
    for i, a in enumerate(sys.argv):
        if a == "--checks":
            checks = sys.argv[i + 1].split(",")
        if a == "--tier":
            tier = sys.argv[i + 1]
    out = os.path.join("/verif/seeded", name)
    os.makedirs(out, exist_ok=True)
    patch = sh("git -C %s diff -- behave/" % wt).stdout
    if not patch.strip():
        print("no change under behave/ in", wt)
        return 2
    open(os.path.join(out, "patch.diff"), "w").write(patch)
    meta = {"property": pid, "name": name, "created": time.strftime("%Y-%m-%d %H:%M"),
            "base_commit": sh("git -C %s rev-parse --short HEAD" % wt).stdout.strip(), "ran": []}
    # (2) baseline
    r = sh("/verif/tools/baseline.py %s" % wt)
    meta["baseline_with_change"] = r.stdout.strip().splitlines()[0] if r.stdout.strip() else ""
    meta["baseline_ok"] = r.returncode == 0
    meta["ran"].append("/verif/tools/baseline.py %s -> exit %d" % (wt, r.returncode))
    print(meta["baseline_with_change"])
    # (3) demonstration
    demo = os.path.join(wt, "demo_%s.py" % pid)
    env = "cd %s && PYTHONPATH=%s BEHAVE_VERIF= /venv/bin/python %s" % (wt, wt, demo)
    if os.path.exists(demo):
        shutil.copy(demo, os.path.join(out, "demo.py"))
        r1 = sh(env)
        # NOT git stash: the stash is shared by all worktrees of one repository (parallel evaluations collide)
        pfile = os.path.join(out, "patch.diff")
        ra = sh("git -C %s apply -R %s" % (wt, pfile))
        r0 = sh(env)
        rb = sh("git -C %s apply %s" % (wt, pfile))
        if ra.returncode or rb.returncode:
            print("patch revert/re-apply failed:", ra.stdout, rb.stdout)
            return 2
        meta["demo_with_change_exit"] = r1.returncode
        meta["demo_without_change_exit"] = r0.returncode
        meta["demo_output_with_change"] = r1.stdout[-1500:]
        meta["ran"].append("demo.py with change -> exit %d; without -> exit %d" % (r1.returncode, r0.returncode))
        print("demo: with change exit %d, without exit %d" % (r1.returncode, r0.returncode))
    else:
        meta["demo_with_change_exit"] = None
        print("no demo file")
    note = os.path.join(wt, "NOTE_%s.md" % pid)
    if os.path.exists(note):
        shutil.copy(note, os.path.join(out, "NOTE.md"))
        meta["needs_to_manifest"] = open(note).read()[:1500]
    # (4) checks
    meta["checks"] = {}
    for c in checks:
        t0 = time.time()
        r = sh("cd /verif && VERIF_REPO=%s ./check %s --tier %s" % (wt, c, tier))
        viol = [l for l in r.stdout.splitlines() if l.startswith("VIOLATION")]
        desc = [l.strip() for l in r.stdout.splitlines() if l.strip().startswith("descriptor=")]
        meta["checks"][c] = {"exit": r.returncode, "violations": len(viol), "first_descriptors": desc[:3],
                             "wall_s": round(time.time() - t0, 1), "tier": tier}
        meta["ran"].append("VERIF_REPO=%s ./check %s --tier %s -> exit %d" % (wt, c, tier, r.returncode))
        print("check %s: exit %d, %d violation classes %s" % (c, r.returncode, len(viol), desc[:1]))
    meta["qualifies"] = bool(meta["baseline_ok"] and meta.get("demo_with_change_exit") not in (0, None)
                             and meta.get("demo_without_change_exit") == 0)
    meta["caught_by"] = [c for c, x in meta["checks"].items() if x["exit"] == 1]
    json.dump(meta, open(os.path.join(out, "meta.json"), "w"), indent=1)
    print("qualifies:", meta["qualifies"], "caught by:", meta["caught_by"])
    return 0

if __name__ == "__main__":
    sys.exit(main())
