#!/venv/bin/python
"""Regenerates /verif/MANIFEST.json from the table below (one source of truth)."""
import json, os, sys
HERE = os.path.dirname(os.path.dirname(os.path.abspath(__file__)))
BASELINE = "cd /repo && env -u BEHAVE_VERIF /venv/bin/python -m pytest -ra -q -p no:cacheprovider --timeout=900 --continue-on-collection-errors"

# id -> (level, technique, text, note, design_ref)
CHECKS = {
 "C07": ("exploration",
         "exhaustive enumeration of expression ASTs x renderings x complete 256-row truth tables against an independent evaluator",
         "Every tag-expression AST with <=3 (quick) / <=4 (thorough) operand occurrences over a literal+wildcard alphabet, in 8 renderings "
         "(incl. list form, @ prefixes, redundant parentheses, doubled spaces), is evaluated by the real parser/evaluator on all 256 subsets of an "
         "8-tag universe and compared with an independently written evaluator; printed forms are re-parsed and compared; {config.tags} substitution "
         "goes through the real Configuration.setup_tag_expression. Bounded-exhaustive, no sampling.",
         "Trusts the 40-line reference evaluator/glob matcher in checks/c07_tagexpr_v2.py and that behaviours depend only on expression structure up to the bound; "
         "operand spellings outside the alphabet are not covered.",
         "DESIGN.md section 5, C07"),
}
PENDING_REASON = "check not built yet in this round (planned, see DESIGN.md section 5); nothing is claimed for it so far"

def main():
    props = [json.loads(l) for l in open(os.path.join(HERE, "properties.jsonl"))]
    checks, na = [], []
    for p in props:
        pid = p["id"]
        if pid in CHECKS:
            level, tech, text, note, ref = CHECKS[pid]
            checks.append({
                "property_id": pid,
                "quick_cmd": "./check %s --tier quick" % pid,
                "thorough_cmd": "./check %s --tier thorough" % pid,
                "evidence_file": "evidence/%s.json" % pid,
                "replay_cmd_template": "./check %s --replay {path}" % pid,
                "engine": "vlib.core",
                "level_claimed": {"category": level, "text": text, "design_ref": ref},
                "level_note": note,
                "technique": tech,
            })
        else:
            na.append({"property_id": pid, "reason": PENDING_REASON})
    m = {
        "version": 1,
        "setup_cmd": "/venv/bin/python -m compileall -q vlib checks && /venv/bin/python tools/selftest.py",
        "hooks": {"guard": "BEHAVE_VERIF", "enable": "BEHAVE_VERIF=1 in the environment (exported by ./check); no build step, behave is imported from /repo's working tree",
                  "baseline_off_cmd": BASELINE, "source_commits": [], "add_only": True},
        "engines": [{"name": "vlib.core", "path": "vlib/core.py", "serves_properties": sorted(CHECKS),
                     "kind_free_text": "hand-written bounded-exhaustive explorer for Python: sharded case sweeps (E1/E3/E4) and explicit-state BFS over real objects (E2) with a determinism replay self-check"}],
        "checks": checks,
        "not_applicable": na,
        "notes": "All checks run /repo's working tree in-process (PYTHONPATH order enforced by ./check). known_findings.json is read-only at run time.",
    }
    with open(os.path.join(HERE, "MANIFEST.json"), "w") as f:
        json.dump(m, f, indent=1)
    print("MANIFEST.json: %d checks, %d not_applicable" % (len(checks), len(na)))

if __name__ == "__main__":
    main()
