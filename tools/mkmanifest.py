#!/venv/bin/python
"""Regenerates /verif/MANIFEST.json from the table below (one source of truth)."""
import json, os, sys
HERE = os.path.dirname(os.path.dirname(os.path.abspath(__file__)))
BASELINE = "cd /repo && env -u BEHAVE_VERIF /venv/bin/python -m pytest -ra -q -p no:cacheprovider --timeout=900 --continue-on-collection-errors"

# id -> (level, technique, text, note, design_ref)
CHECKS = {
 "C07": ("exploration",
         "exhaustive enumeration of expression ASTs x renderings x complete 256-row truth tables against an independent evaluator",
         "Every tag-expression AST with <=3 (quick) / <=4 (thorough) operand occurrences over a literal+wildcard alphabet, in 8 renderings "
         "(incl. list form, @ prefixes, redundant parentheses, doubled spaces), is evaluated by the real parser/evaluator on all 256 subsets of an "
         "8-tag universe and compared with an independently written evaluator; printed forms are re-parsed and compared; {config.tags} substitution "
         "goes through the real Configuration.setup_tag_expression. Bounded-exhaustive, no sampling.",
         "Trusts the 40-line reference evaluator/glob matcher in checks/c07_tagexpr_v2.py and that behaviours depend only on expression structure up to the bound; "
         "operand spellings outside the alphabet are not covered.",
         "DESIGN.md section 5, C07"),

 "C01": ("exploration",
         "exhaustive small-scope enumeration of feature trees x step-outcome deviations x configurations, plus every single hook/cleanup fault point, executed on the real parser+runner and compared with a reference interpreter",
         "All one-feature shapes up to the item bound (scenarios, outlines, rules, backgrounds) followed by a second feature; every single step position x every non-pass outcome "
         "(pairs on the smallest shapes) x {default, --stop, --dry-run} and, with one tag placed on every element in turn, {--wip, --tags t, --tags 'not t', --stop --tags t}; every hook invocation "
         "raising (2 exception kinds) and a cleanup at every layer. The verdict of ModelRunner.run() is compared with the reference verdict in both directions; a subset is re-run through "
         "behave.__main__.main() on real files and `python -m behave` for the exit code.",
         "Trusts the reference interpreter vlib/refrun.py (written from the property statements) and the abstract-program renderer; bounded by shape size and deviation count; the exit-code mapping is checked on a subset.",
         "DESIGN.md section 5, C01"),
 "C03": ("exploration",
         "exhaustive enumeration of the Status enum, of all forced child-status tuples up to a length bound on real model objects, and of all statuses after the enumerated real runs and retry histories",
         "Status algebra over all members incl. the docs/appendix.status.rst table; compute_status of real Scenario/Feature/Rule/ScenarioOutline objects on all child-status tuples up to length 3/4 (thorough 4/6) "
         "against the clause-by-clause accept-set of the statement; every element status after every real run of the C01 enumeration (incl. hook/cleanup faults, --stop/abort remainders, never-started features); "
         "auto-retry and re-run histories with a different outcome per attempt compared with a fresh run of the last attempt.",
         "Accept-sets are derived from the statement; child tuples no single run can produce are reported in the evidence but do not fail; an element skipped by user code may be 'skipped' (documented behaviour).",
         "DESIGN.md section 5, C03"),
 "C11": ("model_checking",
         "exhaustive pattern x text enumeration for four matcher kinds plus explicit-state breadth-first search over registration histories of the real StepRegistry against a reference registry",
         "All token sequences of length 1-3 over the pattern alphabet rendered for parse/cfparse/re/re0 x all instance and near-miss texts, arguments observed through the real Match.run; breadth-first search over "
         "register / use_step_matcher / module-boundary histories to depth 3 (thorough 4) with canonical-state deduplication, every lookup (step type x text) compared with a reference registry after every transition; "
         "a no-dedup cross-check validates the abstraction.",
         "Trusts the reference instance-of decision and reference registry in checks/c11_step_matching.py; pattern/text alphabets are finite; re0 is only required to bind instances.",
         "DESIGN.md section 5, C11"),
 "C20": ("exploration",
         "exhaustive enumeration of option placements (nowhere / file / command line / both) for every option of the real OPTIONS table, option pairs, file kinds and locations, the -D grammar and userdata getters",
         "Every file-configurable option (derived from behave.configuration.OPTIONS at run time) in all four placements x file kinds (behave.ini, setup.cfg, tox.ini, pyproject.toml) x locations (cwd, HOME); "
         "all pairs over a core (thorough: all options); relative paths/outfiles against the config file's directory; the complete -D grammar; userdata file vs -D; getters x values; two Configurations built in one "
         "process in both orders must equal fresh ones. Each case builds the real Configuration in its own scratch directory.",
         "Trusts the per-kind value generators; options rewritten by mode switches are compared only where the switch does not apply; where the statement is silent (append options given in both places) both documented outcomes are accepted.",
         "DESIGN.md section 5, C20"),

 "C02": ("exploration",
         "exhaustive enumeration of all step-outcome sequences up to a length bound in 6 scenario contexts x switch combinations x sync/async on the real runner, call log and step statuses compared with a reference interpreter; re-run histories of one model object",
         "All outcome sequences over {pass, fail, error, pending, undefined, skip, kbi, convert} of length <=3 (thorough <=4, 5 in the plain context) in each of {scenario, outline row} x {no, feature, feature+rule background} "
         "x {@wip} x {dry-run} x {continue_after_failed_step} x {sync, async}; the call log recorded by generated step functions and every step status must equal the reference prediction; repeated runs of the same model "
         "with different outcome tables must end like a fresh run of the last table.",
         "Trusts vlib/refrun.py; under continue_after_failed_step both admissible readings after an undefined/pending/interrupted step are accepted; no random tail beyond the bound.",
         "DESIGN.md section 5, C02"),

 "C09": ("exploration",
         "exhaustive enumeration of tag placements over all levels x tag expressions in both dialects x switches on the real runner, executed set compared with an independent tag evaluator over effective tags",
         "Base trees covering feature / rule / scenario / outline / examples-block / parametrised-tag levels; every assignment of {none,t,u} to the tag slots with <=2 (thorough <=3) non-empty slots x 10 expressions "
         "(v2 and v1 dialects, negation, wildcard) x show_skipped x dry-run, plus one failing step at every position; the set of executed scenarios (call log, scenario/step hooks), the skipped statuses of "
         "de-selected scenarios and their steps, and the skipped/not-skipped status of every container are compared with the independent evaluator.",
         "Trusts vlib/ref_tags.py (evaluator) and vlib/refrun.py; feature/rule hooks for a container that matches by its own tags but has no selected scenario are not constrained (statement silent).",
         "DESIGN.md section 5, C09"),
 "C12": ("fault_enumeration",
         "fault-point enumeration: every hook invocation of the fault-free run (and, thorough, every pair) raises, on 48 tagged feature shapes x 3 variations, complete hook log / statuses / call log compared with a reference interpreter and with the real fault-free run",
         "For each of 48 shapes with a rule, an outline and tags at every level, and each of {default, --stop, --tags} the k-th hook call raises (Exception subclass / AssertionError) for EVERY k; thorough adds all pairs. "
         "Checked: run() returns, verdict failed, hook log equals the nested reference grammar with every started before-phase closed by its after hook, the element concerned is hook_error and a failed before-hook "
         "keeps the body from running, unrelated elements keep status and step calls of the real fault-free run, before_all aborts, --stop stops; no hooks in dry-run or for de-selected scenarios.",
         "Trusts vlib/refrun.py hook grammar; KeyboardInterrupt in hooks is out of the quantifier; order among after_tag hooks of one element compared as multiset.",
         "DESIGN.md section 5, C12"),

 "C14": ("exploration",
         "exhaustive enumeration of runs (C01 program/outcome/config/fault space) with the real SummaryReporter in all five output formats and a walked SummaryCollector, compared with an independent census of the model",
         "For every enumerated run the per-kind per-status tables of the real SummaryReporter and of SummaryCollector, their failing/errored scenario listings and the numbers parsed back from the text of "
         "each output format (v1, v1A, v1B, v2, v3; one selected through userdata) must equal an independent census of the model after the run (outline rows counted once each, background step copies per scenario); "
         "per-kind counts must add up to the number of elements.",
         "Trusts the 30-line census walker and the regex grammar used to parse the five text formats; SummaryReporterV2 (not wired into behave, raises on print) is outside the property's two implementations and not exercised.",
         "DESIGN.md section 5, C14"),
 "C10": ("exploration",
         "exhaustive enumeration of every line number (0..last+3) of rendered documents, location multisets, file lists / @listfiles and name patterns against a reference line map",
         "150 rendered documents (15 shapes x 5 layouts x 2 headers) with known entity start lines; every single line on all of them, all pairs (thorough: triples) of entity-adjacent lines, lists over two files incl. "
         "interleaved order, @listfile with comments/blank lines/relative paths/indentation, FileLocationParser inputs, and name patterns from names/substrings/anchors/alternations; selection after parse_features and after a real run "
         "is compared with the reference selection (nearest entity at or above the line; union for several locations; setup/teardown kept).",
         "Trusts the check's own renderer/line map; multi-location selections are checked differentially against single-location selections which are checked against the reference.",
         "DESIGN.md section 5, C10"),
 "C06": ("model_checking",
         "exhaustive outline enumeration (placeholder positions x blocks x rows x cell values x schemas, deviation-bounded) plus explicit-state breadth-first search over examples-table edit histories with canonical-state deduplication and a no-dedup cross-check",
         "All 64 subsets of placeholder positions x block/row/value/schema deviations up to the bound: generated scenarios (order, names, step names, doc-strings, step tables, tags, line, parent) compared with a reference "
         "simultaneous-substitution expansion, template bit-identical before/after, rows independent; breadth-first search over {read scenarios, add_row, add_column, remove_column, append examples, run} histories to depth 4 "
         "(thorough 6): after every operation .scenarios equals the reference expansion of the current tables.",
         "Trusts the reference expansion in checks/c06_outline_expansion.py; cell values containing '<' or '>' are excluded (statement: other column names as plain text); canonical abstraction validated by a no-dedup search to a smaller depth.",
         "DESIGN.md section 5, C06"),

 "C15": ("exploration",
         "exhaustive enumeration of small programs x ordered formatter line-ups x switches on the real runner: recorded event streams checked by a grammar automaton fed by the reference interpreter, JSON/plain/progress outputs parsed back and compared with the model",
         "Programs with backgrounds at both levels, outlines, rules, tagged (hidden) and failing scenarios, step tables/doc-strings/unicode, <=1 (thorough <=2) outcome deviations x {show_skipped, tags, dry-run, stop, timings/multiline/colour} "
         "x every ordered line-up of size 1-2 (size 3 over a core) of the nine built-in formatters between two recorders: stream grammar (n announced steps, m processed steps predicted by the reference interpreter, i-th result = i-th step with its "
         "final status, eof/close), identical streams for all formatters, JSON validity + element-wise agreement with the model + JsonParser read-back, plain/progress2/progress3 showing every processed step once, output independent of the line-up.",
         "Trusts vlib/refrun.py for the set of processed steps and the regex readers for the text formats; one recorded behave defect (dry-run + undefined step) is listed in known_findings.json.",
         "DESIGN.md section 5, C15"),
 "C08": ("exploration",
         "exhaustive enumeration of old-style CNF tag formulas x decorations x presentations x protocol routes with complete truth tables, plus all v2 renderings and mixed texts under auto-detection",
         "All CNF formulas up to 2x2 (thorough 3x3 styled) over signed tags with -/~ negation, optional @, :limit suffixes, as list / tuple / string / wide-blank string, under V1 and AUTO_DETECT (explicit, via TagExpressionProtocol.use, via Configuration --tags): "
         "complete truth tables against AND-of-ORs; every C07 v2 rendering under AUTO_DETECT keeps its v2 meaning; texts mixing the v1 negation prefix with v2 operators must raise TagExpressionError.",
         "Trusts the CNF evaluator; a lone 'a:3' is claimed by both dialects (old-style tag with limit / new-style literal) and both readings are accepted; limits are parsed but not enforced by behave and not checked.",
         "DESIGN.md section 5, C08"),
 "C19": ("exploration",
         "exhaustive enumeration of active-tag multisets x current-value assignments x value kinds x provider kinds x matcher variants against the statement's formula; shipped providers against sys.version_info/platform",
         "All tag multisets up to size 3 (thorough 4, 5 with plain strings) over a 14-tag alphabet (positive/negative/alias prefixes, dotted and unknown categories, non-active tags) x 36 value assignments x 10 value kinds "
         "(plain, ValueObject, numeric eq/ge/le, bool, lazy callable, malformed) x {dict, ActiveTagValueProvider, CompositeActiveTagValueProvider (queried twice)} x custom prefixes/separators/CompositeTagMatcher; "
         "should_exclude_with / should_run_with compared with the formula of the statement; behave.active_tag.python and python_feature categories against the running interpreter.",
         "Trusts the 20-line formula evaluator; only the running interpreter/platform is witnessed for the shipped providers.",
         "DESIGN.md section 5, C19"),

 "C05": ("model_checking",
         "explicit-state breadth-first search over line histories of the real Parser to a fixpoint of a canonical parser-state abstraction (5 entry points), validated by a no-dedup enumeration of all line sequences up to length 3/4, plus every single-line mutation of valid documents with a reference acceptor for the catalogued faults",
         "Alphabet of ~28 line kinds (block keywords in two languages, step keywords, tags, malformed tags, table rows, doc-string delimiters, free text, comments, language comments, blank); from every new abstract state every line kind is fed to the real "
         "parser and the history also terminated; invariant: terminates with model / None / ParserError whose line lies inside the text, never another exception; the no-dedup enumeration confirms (abstract state, line kind) determines the outcome class; every "
         "insert/delete/duplicate/swap/truncate mutation of rendered documents keeps the invariant and each catalogued fault kind is reported at the injected line wherever the reference acceptor calls it a fault.",
         "Trusts the canonical abstraction (validated by the no-dedup cross-check to the stated depth) and the reference acceptor; line kinds outside the alphabet are not covered.",
         "DESIGN.md section 5, C05"),
 "C04": ("model_checking",
         "exhaustive enumeration of abstract documents x layouts x all 80 languages x every keyword alias rendered to Gherkin and compared with the real parse result, plus the C05 state search recording that every accepted line is attached to the element the grammar says",
         "Block sequences up to 4 (thorough 6) blocks with descriptions, tags on 1-2 lines, trailing comments, all keyword sequences up to length 3, doc-strings of both quote styles, tables with escaped pipes/empty cells/unicode; layout deviations "
         "(indent styles, blank/comment line at every position); every language in the keyword table x every alias of every keyword; entry points parse_feature, parse_file, parse_steps, parse_scenario, parse_rule, parse_tags; "
         "ModelDescriptor table/doc-string round trip. Oracle: the abstract document that was rendered (order, keywords as written, names, tags with lines, step types with And/But/* inheritance, texts, cells, 1-based lines).",
         "Trusts the renderer vlib/gherkin_render.py; the keyword table is read from etc/gherkin/gherkin-languages.json so that a truncated i18n.py is visible; CRLF and lower-case keywords are not varied.",
         "DESIGN.md section 5, C04"),

 "C17": ("exploration",
         "exhaustive enumeration of two-file programs over a scenario-kind alphabet with a bound on non-passing scenarios, each executed as the history run -> rerun file -> selection -> second run on real files",
         "Ten feature shapes (plain scenarios, outlines with one/two examples blocks, rules, backgrounds) in 11 (thorough 17) ordered two-file pairs; every assignment of {pass, fail, error, undefined, pending, before/after-scenario hook error, "
         "de-selected} with <=2 (thorough <=4) non-passing scenarios; stale rerun file present/absent. The real RerunFormatter (built through make_formatters) must list exactly file:line of the failed/error-class scenarios in run order, "
         "remove the stale file when there are none; feeding '@rerun.txt' back through collect_feature_locations/parse_features must select exactly those scenarios and a second real run must execute exactly them.",
         "Trusts the renderer's line map (vlib/prog.py) and the slot-kind -> status premise (itself checked); the rerun file is always rerun.txt in the working directory.",
         "DESIGN.md section 5, C17"),
 "C18": ("exploration",
         "exhaustive enumeration of outcome sequences x all 8 capture-switch combinations x logging variants with marker-printing steps and hooks, observed through sentinel real streams, formatter callbacks and the root logger; child processes in thorough",
         "1-2 scenarios x all outcome sequences up to length 2 (thorough 3) over {pass, execute_steps, fail, error, KeyboardInterrupt, before_step hook error, after_step hook error, failing sub-step}; every step and step hook writes unique markers "
         "to stdout, stderr and a logger; all 8 capture switch combinations x logging variants. Checked: no captured marker reaches the sentinel streams; a failing step's report contains exactly its scenario's markers up to that step; passing "
         "scenarios' output is not shown; sys.stdout/sys.stderr are the original objects at every match/result callback, in after_scenario and after the run for every outcome; root logger handlers/level restored per scenario; pass-through order with capture off.",
         "In-process sentinel streams stand for the real streams (12 child-process runs in thorough confirm the correspondence); --logging-filter sub-logger semantics are accepted either way (docs contradict themselves).",
         "DESIGN.md section 5, C18"),

 "C13": ("model_checking",
         "explicit-state breadth-first search over operation histories on the real Context against a list-of-dicts reference model (canonical-state dedup, no-dedup cross-check), exhaustive raising-subset enumeration of registered cleanups, and real runs with attribute/cleanup activity and faults at every callback",
         "Operations {push/pop scope, set/get/delete/contains, _set_root_attribute, use_or_assign/use_or_create, add_cleanup plain/args/kwargs/layer=, use_fixture of 8 kinds, user/behave mode switches, end-of-run cleanups} to depth 5 (thorough 6, 7 on sub-alphabets): "
         "after every transition result/exception class, every name's visible value, membership, layer stack, mode and the complete cleanup log are compared with the reference; every placement of <=3 (thorough 4) cleanup registrations x every raising subset; "
         "ModelRunner runs on a tagged feature+outline+rule where every callback sets/shadows/deletes attributes and registers cleanups, with every single raising cleanup/callback and pairs; execute_steps restores text/table.",
         "Trusts the reference model and the canonical abstraction (validated by the no-dedup search to depth 3/4); ContextMaskWarning text is not checked; no random tail beyond the depth bound.",
         "DESIGN.md section 5, C13"),

 "C16": ("exploration",
         "exhaustive enumeration of (text slot x hostile atom) singles and pairs, all 128 userdata switch combinations, and the C01 run space with JUnit reporting on (show_skipped on and off), every report parsed with an independent XML parser (expat) and compared with the model",
         "Ten text slots (feature/scenario/step names, tag, assertion/exception/hook messages, captured stdout/stderr, log record) x 15 hostile atoms (XML metacharacters, CDATA terminators, C0/C1 controls, ANSI escapes, noncharacters, astral, CR/TAB) as singles on 7 shapes and pairs on a small shape; "
         "128 combinations of the seven behave.reporter.junit.* switches; the C01 enumeration incl. hook and cleanup faults reported twice (show_skipped on/off). Checked: every TESTS-*.xml is well formed, test cases = the feature's scenarios (rows included, skipped iff shown) with their status class, "
         "tests/failures/errors/skipped = numbers of entries, every failed/errored scenario has a failure/error entry naming the responsible step or hook, nothing escapes run().",
         "Trusts expat (xml.dom.minidom) as the well-formedness judge; characters outside the hostile alphabet are not covered; config.base_dir is set to cwd because ModelRunner does not set it.",
         "DESIGN.md section 5, C16"),
}
PENDING_REASON = "check not built yet in this round (planned, see DESIGN.md section 5); nothing is claimed for it so far"

def main():
    props = [json.loads(l) for l in open(os.path.join(HERE, "properties.jsonl"))]
    checks, na = [], []
    for p in props:
        pid = p["id"]
        if pid in CHECKS:
            level, tech, text, note, ref = CHECKS[pid]
            checks.append({
                "property_id": pid,
                "quick_cmd": "./check %s --tier quick" % pid,
                "thorough_cmd": "./check %s --tier thorough" % pid,
                "evidence_file": "evidence/%s.json" % pid,
                "replay_cmd_template": "./check %s --replay {path}" % pid,
                "engine": "vlib.core",
                "level_claimed": {"category": level, "text": text, "design_ref": ref},
                "level_note": note,
                "technique": tech,
            })
        else:
            na.append({"property_id": pid, "reason": PENDING_REASON})
    m = {
        "version": 1,
        "setup_cmd": "/venv/bin/python -m compileall -q vlib checks && /venv/bin/python tools/selftest.py",
        "hooks": {"guard": "BEHAVE_VERIF", "enable": "BEHAVE_VERIF=1 in the environment (exported by ./check); no build step, behave is imported from /repo's working tree",
                  "baseline_off_cmd": BASELINE, "source_commits": [], "add_only": True},
        "engines": [{"name": "vlib.core", "path": "vlib/core.py", "serves_properties": sorted(CHECKS),
                     "kind_free_text": "hand-written bounded-exhaustive explorer for Python: sharded case sweeps (E1/E3/E4) and explicit-state BFS over real objects (E2) with a determinism replay self-check"}],
        "checks": checks,
        "not_applicable": na,
        "notes": "All checks run /repo's working tree in-process (PYTHONPATH order enforced by ./check). known_findings.json is read-only at run time.",
    }
    with open(os.path.join(HERE, "MANIFEST.json"), "w") as f:
        json.dump(m, f, indent=1)
    print("MANIFEST.json: %d checks, %d not_applicable" % (len(checks), len(na)))

if __name__ == "__main__":
    main()
