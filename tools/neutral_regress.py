#!/venv/bin/python
"""Re-run the false-alarm audit: every behaviour-preserving refactoring kept under /verif/neutral is applied to a scratch
clone of /repo HEAD (skipped if a later fix: commit touched the same lines) and ALL quick checks must stay silent.
usage: neutral_regress.py [--nproc N] [name-filter]"""
import glob, json, os, subprocess, sys
nproc = sys.argv[sys.argv.index("--nproc") + 1] if "--nproc" in sys.argv else "8"
flt = [a for a in sys.argv[1:] if not a.startswith("--") and a != nproc]
flt = flt[0] if flt else ""
wt = "/dev/shm/wt-neutral-%d" % os.getpid()
def sh(c):
    return subprocess.run(c, shell=True, stdout=subprocess.PIPE, stderr=subprocess.STDOUT, text=True)
sh("git clone -q --no-hardlinks /repo %s" % wt)
bad = []
try:
    for p in sorted(glob.glob("/verif/neutral/*/patch.diff")):
        name = os.path.basename(os.path.dirname(p))
        if flt and flt not in name:
            continue
        sh("git -C %s reset -q --hard HEAD && git -C %s clean -fdq" % (wt, wt))
        if sh("git -C %s apply --3way %s" % (wt, p)).returncode:
            print("%-4s skipped: patch no longer applies to HEAD" % name, flush=True)
            continue
        r = sh("/verif/tools/baseline.py %s" % wt)
        if r.returncode:
            print("%-4s skipped: baseline fails after the merge with HEAD" % name, flush=True)
            continue
        for i in range(1, 21):
            c = "C%02d" % i
            r = sh("cd /verif && VERIF_REPO=%s ./check %s --tier quick --nproc %s" % (wt, c, nproc))
            if r.returncode != 0:
                desc = [l.strip() for l in r.stdout.splitlines() if l.strip().startswith(("descriptor=", "HARNESS"))][:1]
                print("%-4s %s exit=%d %s" % (name, c, r.returncode, (desc or [""])[0][:200]), flush=True)
                bad.append((name, c, r.returncode))
        print("%-4s done" % name, flush=True)
finally:
    sh("rm -rf %s" % wt)
print("ALARMS/ERRORS: %s" % bad if bad else "all checks silent on all applicable refactorings")
sys.exit(1 if bad else 0)
