#!/bin/bash
# usage: mkwave.sh "<hint>" ids...
hint="$1"; shift
for id in "$@"; do
  git -C /repo worktree add --detach /tmp/wt-$id HEAD >/dev/null 2>&1
  slips=$(python3 - $id <<'P'
import glob,sys,re,os
pid=sys.argv[1]
out=[]
for d in sorted(glob.glob('/verif/seeded/*-%s'%pid)):
    n=os.path.join(d,'NOTE.md')
    if not os.path.exists(n): continue
    lines=[l.strip() for l in open(n) if l.strip() and not l.startswith('#')]
    if lines: out.append(re.sub(r'\s+',' ',lines[0])[:170])
print(" | ".join(out))
P
)
  /verif/tools/seed_prompt.py $id /tmp/wt-$id "$hint Do NOT reuse any of these already known slips (or close variants of them): $slips" > /tmp/wt-$id/TASK.md
  wc -c /tmp/wt-$id/TASK.md
done
