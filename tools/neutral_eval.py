#!/venv/bin/python
"""Evaluate a BEHAVIOUR-PRESERVING refactoring produced in a scratch worktree: every check must stay silent on it.

usage: neutral_eval.py <worktree> <name> [--nproc N] [--checks C01,C02]

Stores /verif/neutral/<name>/{patch.diff, NOTE.md, meta.json}: the pinned baseline must pass on the worktree and each
property's quick check is run with VERIF_REPO=<worktree>; a check that prints VIOLATION (exit 1) on such a tree raises
a false alarm (to be triaged: either the refactoring does change documented behaviour, or the check demands an
implementation detail), exit 2 means the harness depends on a private detail the refactoring changed.
"""
import json, os, shutil, subprocess, sys, time

def sh(cmd):
    return subprocess.run(cmd, shell=True, stdout=subprocess.PIPE, stderr=subprocess.STDOUT, text=True)

def main():
    wt, name = sys.argv[1:3]
    nproc = sys.argv[sys.argv.index("--nproc") + 1] if "--nproc" in sys.argv else "8"
    checks = ["C%02d" % i for i in range(1, 21)]
    if "--checks" in sys.argv:
        checks = sys.argv[sys.argv.index("--checks") + 1].split(",")
    out = os.path.join("/verif/neutral", name)
    os.makedirs(out, exist_ok=True)
    patch = sh("git -C %s diff -- behave/" % wt).stdout
    if not patch.strip():
        print("no change under behave/")
        return 2
    open(os.path.join(out, "patch.diff"), "w").write(patch)
    note = os.path.join(wt, "NOTE_NEUTRAL.md")
    if os.path.exists(note):
        shutil.copy(note, os.path.join(out, "NOTE.md"))
    meta = {"name": name, "created": time.strftime("%Y-%m-%d %H:%M"),
            "base_commit": sh("git -C %s rev-parse --short HEAD" % wt).stdout.strip(),
            "files": sorted(set(l[6:] for l in patch.splitlines() if l.startswith("+++ b/"))),
            "lines_changed": sum(1 for l in patch.splitlines() if l[:1] in "+-" and l[:3] not in ("+++", "---"))}
    r = sh("/verif/tools/baseline.py %s" % wt)
    meta["baseline"] = r.stdout.strip().splitlines()[-1] if r.stdout.strip() else ""
    meta["baseline_ok"] = r.returncode == 0
    print(meta["baseline"])
    meta["checks"] = {}
    for c in checks:
        t0 = time.time()
        r = sh("cd /verif && VERIF_REPO=%s ./check %s --tier quick --nproc %s" % (wt, c, nproc))
        desc = [l.strip() for l in r.stdout.splitlines() if l.strip().startswith("descriptor=")]
        tail = [l for l in r.stdout.splitlines() if l.startswith(("HARNESS", "Traceback", "GUARD")) or "Error" in l][:3]
        meta["checks"][c] = {"exit": r.returncode, "descriptors": desc[:3], "hint": tail, "wall_s": round(time.time() - t0, 1)}
        print("%s exit=%d %s" % (c, r.returncode, (desc[:1] or tail[:1] or [""])[0][:200]), flush=True)
    meta["alarms"] = [c for c, x in meta["checks"].items() if x["exit"] == 1]
    meta["harness_errors"] = [c for c, x in meta["checks"].items() if x["exit"] not in (0, 1)]
    json.dump(meta, open(os.path.join(out, "meta.json"), "w"), indent=1)
    print("alarms:", meta["alarms"], "harness errors:", meta["harness_errors"])
    return 0

if __name__ == "__main__":
    sys.exit(main())
