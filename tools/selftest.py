#!/venv/bin/python
"""2-second self-test run by MANIFEST.setup_cmd: interpreter, behave import path, manifest validity."""
import os, sys, json, subprocess
HERE = os.path.dirname(os.path.dirname(os.path.abspath(__file__)))
sys.path.insert(0, "/repo")
import behave
assert behave.__file__.startswith("/repo/"), behave.__file__
m = json.load(open(os.path.join(HERE, "MANIFEST.json")))
ids = [c["property_id"] for c in m["checks"]] + [n["property_id"] for n in m.get("not_applicable", [])]
props = [json.loads(l)["id"] for l in open(os.path.join(HERE, "properties.jsonl"))]
assert sorted(ids) == sorted(props), (ids, props)
for c in m["checks"]:
    assert os.path.exists(os.path.join(HERE, "check"))
print("selftest ok: %d checks claimed" % len(m["checks"]))
