#!/venv/bin/python
"""Runs the repository's pinned baseline test command on a tree (default /repo) and checks that every
test of BASELINE.json's stable_pass list still passes.  usage: baseline.py [repo_dir]"""
import json, os, subprocess, sys, tempfile, xml.dom.minidom
repo = sys.argv[1] if len(sys.argv) > 1 else "/repo"
base = json.load(open("/root/.vp/BASELINE.json"))
out = tempfile.mktemp(suffix=".xml", dir="/dev/shm")
env = dict(os.environ)
env.pop("BEHAVE_VERIF", None)
env["PYTHONPATH"] = repo
cmd = ["/venv/bin/python", "-m", "pytest", "-ra", "-q", "-p", "no:cacheprovider", "--timeout=900",
       "--continue-on-collection-errors", "--junitxml=" + out]
p = subprocess.run(cmd, cwd=repo, env=env, stdout=subprocess.PIPE, stderr=subprocess.STDOUT, text=True)
doc = xml.dom.minidom.parse(out)
os.unlink(out)
passed = set()
for tc in doc.getElementsByTagName("testcase"):
    bad = [c for c in tc.childNodes if c.nodeType == 1 and c.tagName in ("failure", "error", "skipped")]
    if not bad:
        passed.add("%s::%s" % (tc.getAttribute("classname"), tc.getAttribute("name")))
missing = [t for t in base["stable_pass"] if t not in passed]
print("baseline on %s: %d of %d stable tests pass" % (repo, len(base["stable_pass"]) - len(missing), len(base["stable_pass"])))
for t in missing[:40]:
    print("  NOT PASSING:", t)
if missing:
    print(p.stdout[-3000:])
sys.exit(1 if missing else 0)
